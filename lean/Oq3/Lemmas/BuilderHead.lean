/-
The tree builder never lets a node (other than the root) of a "text-head" kind start with a
trivia token: `buildTree_rootHeadOk`.  This is the hypothesis `rootHeadOk` of the accessor
blindness theorem (`Lemmas/AccLayout.lean`), discharged for every tree the builder produces.

Why it holds: on `enter k` (outside the very first one) `intersperse_trivia` first emits ALL the
leading trivia except the `n_attached_trivias kind` last ones, then `enter k`, then the attached
ones; `n_attached_trivias` is 0 unless `kind == CONST`, and `CONST` is not a head kind.  So right
after `enter k` the next raw token is not trivia, and the next thing emitted is a token step's own
(non-trivia) token, another `enter`, or `exit`.

Hypothesis `tokenKindsOk`: no parser step is `token k _` with `k` a trivia kind (the parser never
sees trivia).
-/
import Oq3.Lemmas.TreeCNode
import Oq3.Lemmas.AccLayout

namespace Oq3.BuilderLayout
open Oq3.Gen Oq3.Parser Oq3.Builder Oq3.Acc

/-! ### a scan over the emitted steps -/

/-- state: (the last thing emitted, errors aside, was `enter k` of a head kind below the root;
number of open nodes) -/
def scanStep : Bool × Nat → StrStep → Option (Bool × Nat)
  | (f, d), .error _ _ => some (f, d)
  | (f, d), .token k _ => if f && k.isTrivia then none else some (false, d)
  | (_, d), .enter k => some (headKind k && decide (0 < d), d + 1)
  | (_, d), .exit => some (false, d - 1)

def scanFrom (st : Bool × Nat) (out : List StrStep) : Option (Bool × Nat) := out.foldlM scanStep st

theorem scanFrom_append (st : Bool × Nat) (a b : List StrStep) :
    scanFrom st (a ++ b) = (scanFrom st a).bind (fun s => scanFrom s b) := by
  simp [scanFrom, List.foldlM_append]

theorem scanFrom_snoc {st s : Bool × Nat} {a : List StrStep} (x : StrStep) (h : scanFrom st a = some s) :
    scanFrom st (a ++ [x]) = scanStep s x := by
  rw [scanFrom_append, h]; simp [scanFrom]

/-- builder invariant, on the output so far and the position in the raw token table -/
def HInv (toks : List RawTok) (out : List StrStep) (pos : Nat) : Prop :=
  ∃ f d, scanFrom (false, 0) out = some (f, d) ∧
    (f = true → ∀ t, (toks.drop pos).head? = some t → t.kind.isTrivia = false)

abbrev HInvB (toks : List RawTok) (b : B) : Prop := HInv toks b.out b.pos

theorem HInv.emit_trivia {toks : List RawTok} {out : List StrStep} {pos : Nat} (h : HInv toks out pos)
    {t : RawTok} (ht : toks[pos]? = some t) (hk : t.kind.isTrivia = true) :
    HInv toks (out ++ [.token t.kind t.text]) (pos + 1) := by
  obtain ⟨f, d, hs, hf⟩ := h
  have hff : f = false := by
    cases f with
    | false => rfl
    | true =>
      have := hf rfl t (by rw [List.head?_drop]; exact ht)
      rw [hk] at this; cases this
  subst hff
  refine ⟨false, d, ?_, fun h => by cases h⟩
  rw [scanFrom_snoc _ hs]; simp [scanStep]

/-- emitting something that resets `fresh` -/
theorem HInv.emit_reset {toks : List RawTok} {out : List StrStep} {pos : Nat} (h : HInv toks out pos)
    (x : StrStep) (p : Nat) (hx : ∀ f d, ∃ d', scanStep (f, d) x = some (false, d')) :
    HInv toks (out ++ [x]) p := by
  obtain ⟨f, d, hs, _⟩ := h
  obtain ⟨d', hd'⟩ := hx f d
  refine ⟨false, d', ?_, fun h => by cases h⟩
  rw [scanFrom_snoc _ hs, hd']

theorem eatTriviasAux_hinv {toks : List RawTok} (rest : List RawTok) (b : B) (h : HInvB toks b)
    (hr : toks.drop b.pos = rest) : HInvB toks (eatTriviasAux rest b) := by
  induction rest generalizing b with
  | nil => exact h
  | cons t r ih =>
    simp only [eatTriviasAux]
    have ht : toks[b.pos]? = some t := by
      have := congrArg List.head? hr
      simpa [List.head?_drop] using this
    cases hk : t.kind.isTrivia with
    | false => simpa using h
    | true =>
      simp only [if_true]
      apply ih _ (HInv.emit_trivia h ht hk)
      simp only [emit]
      have := drop_eq_cons ht
      rw [hr] at this
      exact (List.cons.inj this).2.symm

theorem eatTrivias_hinv {toks : List RawTok} (b : B) (h : HInvB toks b) : HInvB toks (eatTrivias toks b) :=
  eatTriviasAux_hinv _ b h rfl

theorem eatNTrivias_hinv {toks : List RawTok} (n : Nat) (b b' : B) (h : HInvB toks b)
    (he : eatNTrivias toks n b = .ok b') : HInvB toks b' ∧ b'.pos = b.pos + n := by
  induction n generalizing b with
  | zero => simp only [eatNTrivias] at he; cases he; exact ⟨h, rfl⟩
  | succ n ih =>
    simp only [eatNTrivias] at he
    cases ht : toks[b.pos]? with
    | none => rw [ht] at he; cases he
    | some t =>
      rw [ht] at he
      simp only at he
      cases hk : t.kind.isTrivia with
      | false => rw [hk] at he; simp at he
      | true =>
        rw [hk] at he
        simp only [Bool.not_true, Bool.false_eq_true, if_false] at he
        obtain ⟨h1, h2⟩ := ih _ (HInv.emit_trivia h ht hk) he
        exact ⟨h1, by rw [h2]; simp only [emit]; omega⟩

theorem flushPending_hinv {toks : List RawTok} {b c : B} (h : HInvB toks b) (hf : flushPending b = .ok c) :
    HInvB toks c ∧ c.pos = b.pos := by
  unfold flushPending at hf
  cases hb : b.state <;> rw [hb] at hf <;> simp only at hf
  · cases hf
  · cases hf; exact ⟨h, rfl⟩
  · cases hf
    exact ⟨HInv.emit_reset h .exit b.pos (fun f d => ⟨d - 1, rfl⟩), rfl⟩

/-- no parser step carries a trivia kind -/
def tokenKindsOk (ss : List Step) : Bool :=
  ss.all fun s => match s with
    | .token k _ => !k.isTrivia
    | _ => true

theorem head_dropWhile {α} (p : α → Bool) (l : List α) (x : α) (h : (l.dropWhile p).head? = some x) :
    p x = false := by
  induction l with
  | nil => cases h
  | cons a as ih =>
    simp only [List.dropWhile_cons] at h
    cases hp : p a
    · rw [hp] at h; simp at h; rw [← h]; exact hp
    · rw [hp] at h; exact ih h

theorem enter_state_ne {toks : List RawTok} {b c : B} {k : SyntaxKind}
    (hs : enterBody toks b k = .ok c) (hc : c.state = .pendingEnter) : False := by
  simp only [enterBody, bind, Except.bind] at hs
  cases hf : flushPending b with
  | error e => rw [hf] at hs; cases hs
  | ok d =>
    rw [hf] at hs
    simp only at hs
    have hd : d.state = .normal := by
      unfold flushPending at hf
      cases hb : b.state <;> rw [hb] at hf <;> simp only at hf <;> cases hf <;> rfl
    cases he : eatNTrivias toks (((toks.drop d.pos).takeWhile (·.kind.isTrivia)).length -
        nAttachedTrivias k ((toks.drop d.pos).takeWhile (·.kind.isTrivia)).reverse) d with
    | error e => rw [he] at hs; cases hs
    | ok e1 =>
      rw [he] at hs
      simp only at hs
      have q1 := eatNTrivias_quiet _ _ _ he
      have q2 := eatNTrivias_quiet _ _ _ hs
      rw [q2.state] at hc
      simp only [emit] at hc
      rw [q1.state, hd] at hc
      cases hc

theorem HInv.emit_enter {toks : List RawTok} {out : List StrStep} {pos : Nat} (h : HInv toks out pos)
    (k : SyntaxKind) (p : Nat)
    (hp : headKind k = true → ∀ t, (toks.drop p).head? = some t → t.kind.isTrivia = false) :
    HInv toks (out ++ [.enter k]) p := by
  obtain ⟨f, d, hs, _⟩ := h
  refine ⟨headKind k && decide (0 < d), d + 1, ?_, ?_⟩
  · rw [scanFrom_snoc _ hs]; rfl
  · intro hf
    simp only [Bool.and_eq_true] at hf
    exact hp hf.1

theorem headKind_not_const {k : SyntaxKind} (h : headKind k = true) : (k == SyntaxKind.CONST) = false := by
  cases k <;> first | rfl | cases h

theorem drop_length_takeWhile {α} (p : α → Bool) (l : List α) :
    l.drop (l.takeWhile p).length = l.dropWhile p := by
  induction l with
  | nil => rfl
  | cons a as ih =>
    simp only [List.takeWhile_cons, List.dropWhile_cons]
    cases p a
    · rfl
    · simpa using ih

/-- before the first `enter` only error steps have been emitted -/
def PE (b : B) : Prop := b.state = .pendingEnter → scanFrom (false, 0) b.out = some (false, 0)

theorem step_pe {toks : List RawTok} {b c : B} (s : Step) (h : PE b) (hs : step toks b s = .ok c) : PE c := by
  cases s with
  | token k n =>
    intro hc
    exfalso
    simp only [step, bind, Except.bind] at hs
    cases hf : flushPending b with
    | error e => rw [hf] at hs; cases hs
    | ok d =>
      rw [hf] at hs
      simp only at hs
      have hd : d.state = .normal := by
        unfold flushPending at hf
        cases hb : b.state <;> rw [hb] at hf <;> simp only at hf <;> cases hf <;> rfl
      unfold doToken at hs
      split at hs
      · cases hs
      · cases hs
        simp only [emit] at hc
        rw [(eatTrivias_quiet toks d).1.state, hd] at hc
        cases hc
  | enter k =>
    intro hc
    exfalso
    cases hb : b.state with
    | pendingEnter => simp only [step, hb] at hs; cases hs; cases hc
    | normal =>
      rw [step_enter_eq _ _ _ (by rw [hb]; simp)] at hs
      exact enter_state_ne hs hc
    | pendingExit =>
      rw [step_enter_eq _ _ _ (by rw [hb]; simp)] at hs
      exact enter_state_ne hs hc
  | exit =>
    intro hc
    exfalso
    cases hb : b.state with
    | pendingEnter => simp only [step, hb] at hs; cases hs
    | normal => simp only [step, hb] at hs; cases hs; cases hc
    | pendingExit => simp only [step, hb] at hs; cases hs; cases hc
  | error m =>
    simp only [step] at hs
    cases hs
    intro hc
    have := h hc
    simp only [emit]
    rw [scanFrom_snoc _ this]; rfl

theorem enter_hinv {toks : List RawTok} {b c : B} {k : SyntaxKind} (h : HInvB toks b)
    (hs : enterBody toks b k = .ok c) : HInvB toks c := by
  simp only [enterBody, bind, Except.bind] at hs
  cases hf : flushPending b with
  | error e => rw [hf] at hs; cases hs
  | ok d =>
    rw [hf] at hs
    simp only at hs
    obtain ⟨hd, _⟩ := flushPending_hinv h hf
    cases he : eatNTrivias toks (((toks.drop d.pos).takeWhile (·.kind.isTrivia)).length -
        nAttachedTrivias k ((toks.drop d.pos).takeWhile (·.kind.isTrivia)).reverse) d with
    | error e => rw [he] at hs; cases hs
    | ok e1 =>
      rw [he] at hs
      simp only at hs
      obtain ⟨h1, hp1⟩ := eatNTrivias_hinv _ _ _ hd he
      have henter : HInvB toks (emit e1 (.enter k)) := by
        simp only [emit]
        apply HInv.emit_enter h1
        intro hk t ht
        have hn : nAttachedTrivias k ((toks.drop d.pos).takeWhile (·.kind.isTrivia)).reverse = 0 := by
          simp [nAttachedTrivias, headKind_not_const hk]
        rw [hn, Nat.sub_zero] at hp1
        rw [hp1, ← List.drop_drop, drop_length_takeWhile] at ht
        exact head_dropWhile (fun x : RawTok => x.kind.isTrivia) _ t ht
      exact (eatNTrivias_hinv _ _ _ henter hs).1

theorem step_hinv {toks : List RawTok} {b c : B} (s : Step) (h : HInvB toks b) (hpe : PE b)
    (hk : (match s with | .token k _ => !k.isTrivia | _ => true) = true)
    (hs : step toks b s = .ok c) : HInvB toks c := by
  cases s with
  | token k n =>
    simp only [step, bind, Except.bind] at hs
    cases hf : flushPending b with
    | error e => rw [hf] at hs; cases hs
    | ok d =>
      rw [hf] at hs
      simp only at hs
      have hd := (flushPending_hinv h hf).1
      have he := eatTrivias_hinv d hd
      unfold doToken at hs
      split at hs
      · cases hs
      · cases hs
        have hk' : k.isTrivia = false := by simpa using hk
        exact HInv.emit_reset he _ _ (fun f d => ⟨d, by simp [scanStep, hk']⟩)
  | enter k =>
    cases hb : b.state with
    | pendingEnter =>
      simp only [step, hb] at hs
      cases hs
      have h0 := hpe hb
      refine ⟨false, 1, ?_, fun hh => by cases hh⟩
      simp only [emit]
      rw [scanFrom_snoc _ h0]; simp [scanStep]
    | normal =>
      rw [step_enter_eq _ _ _ (by rw [hb]; simp)] at hs
      exact enter_hinv h hs
    | pendingExit =>
      rw [step_enter_eq _ _ _ (by rw [hb]; simp)] at hs
      exact enter_hinv h hs
  | exit =>
    cases hb : b.state with
    | pendingEnter => simp only [step, hb] at hs; cases hs
    | normal => simp only [step, hb] at hs; cases hs; exact h
    | pendingExit =>
      simp only [step, hb] at hs; cases hs
      exact HInv.emit_reset h .exit b.pos (fun f d => ⟨d - 1, rfl⟩)
  | error m =>
    simp only [step] at hs
    cases hs
    obtain ⟨f, d, hsc, hf⟩ := h
    refine ⟨f, d, ?_, hf⟩
    simp only [emit]
    rw [scanFrom_snoc _ hsc]; rfl

theorem steps_hinv {toks : List RawTok} (ss : List Step) {b c : B} (h : HInvB toks b) (hpe : PE b)
    (hk : tokenKindsOk ss = true) (hs : steps toks ss b = .ok c) : HInvB toks c := by
  induction ss generalizing b with
  | nil => simp only [steps] at hs; cases hs; exact h
  | cons s ss ih =>
    simp only [steps, bind, Except.bind] at hs
    simp only [tokenKindsOk, List.all_cons, Bool.and_eq_true] at hk
    cases h1 : step toks b s with
    | error e => rw [h1] at hs; cases hs
    | ok d =>
      rw [h1] at hs
      exact ih (step_hinv s h hpe hk.1 h1) (step_pe s hpe h1) hk.2 hs

/-- the emitted step list passes the scan -/
theorem intersperse_scan {toks : List RawTok} {ss : List Step} {out : List StrStep} {eof : Bool}
    (hk : tokenKindsOk ss = true) (h : intersperseTrivia toks ss = .ok (out, eof)) :
    ∃ st, scanFrom (false, 0) out = some st := by
  simp only [intersperseTrivia, bind, Except.bind] at h
  cases hb : steps toks ss {} with
  | error e => rw [hb] at h; cases h
  | ok c =>
    rw [hb] at h
    simp only at h
    have h0 : HInvB toks ({} : B) := ⟨false, 0, rfl, fun hh => by cases hh⟩
    have hc := steps_hinv ss h0 (fun _ => rfl) hk hb
    cases hst : c.state <;> rw [hst] at h <;> simp only at h
    · cases h
    · cases h
    · cases h
      obtain ⟨f, d, hsc, _⟩ := eatTrivias_hinv c hc
      exact ⟨_, by simp only [emit]; rw [scanFrom_snoc _ hsc]; rfl⟩

/-! ### from the scan to the tree -/

mutual
/-- no node of a head kind in the model tree starts with a trivia leaf -/
def headOkT : Tree → Bool
  | .node k cs => (!headKind k || match cs with
      | c :: _ => !isTriviaLeaf c
      | [] => true) && headOkTL cs
  | .leaf .. => true
def headOkTL : List Tree → Bool
  | [] => true
  | c :: cs => headOkT c && headOkTL cs
end

def rootHeadOkT : Tree → Bool
  | .node _ cs => headOkTL cs
  | .leaf .. => true

theorem headOkTL_iff (l : List Tree) : headOkTL l = true ↔ ∀ c ∈ l, headOkT c = true := by
  induction l with
  | nil => simp [headOkTL]
  | cons a as ih => simp [headOkTL, ih]

/-- the non-root open nodes of a head kind have a non-trivia first child (if any yet) -/
def stackOk : List (SyntaxKind × List Tree) → Prop
  | [] => True
  | [_] => True
  | (k, cs) :: p2 :: ps =>
    (headKind k = true → ∀ c, cs.getLast? = some c → isTriviaLeaf c = false) ∧ stackOk (p2 :: ps)

structure TG (tb : TB) (f : Bool) (d : Nat) : Prop where
  depth : d = tb.parents.length
  kids : ∀ p ∈ tb.parents, ∀ c ∈ p.2, headOkT c = true
  top : ∀ x ∈ tb.top, rootHeadOkT x = true
  stack : stackOk tb.parents
  fresh : ∀ k rest, tb.parents = (k, []) :: rest → rest ≠ [] → headKind k = true → f = true

theorem getLast?_cons_of_ne {α} (a : α) {l : List α} (h : l ≠ []) : (a :: l).getLast? = l.getLast? := by
  cases l with
  | nil => exact absurd rfl h
  | cons b t => simp [List.getLast?_cons_cons]

theorem tg_step {tb tb' : TB} {f f' : Bool} {d d' : Nat} (x : StrStep) (h : TG tb f d)
    (hs : scanStep (f, d) x = some (f', d')) (ht : tbStep tb x = .ok tb') : TG tb' f' d' := by
  cases x with
  | error m p =>
    simp only [scanStep, Option.some.injEq, Prod.mk.injEq] at hs
    simp only [tbStep] at ht
    cases ht
    obtain ⟨rfl, rfl⟩ := hs
    exact ⟨h.depth, h.kids, h.top, h.stack, h.fresh⟩
  | token k t =>
    simp only [scanStep] at hs
    split at hs
    · cases hs
    · rename_i hft
      simp only [Option.some.injEq, Prod.mk.injEq] at hs
      obtain ⟨rfl, rfl⟩ := hs
      simp only [tbStep] at ht
      cases ht
      unfold TB.push
      rcases hp : tb.parents with _ | ⟨⟨k0, cs0⟩, ps⟩
      · refine ⟨by rw [h.depth, hp], by simp, ?_, by simp [stackOk], by simp⟩
        intro x hx
        simp only [List.mem_cons] at hx
        rcases hx with rfl | hx
        · rfl
        · exact h.top x hx
      · refine ⟨by rw [h.depth, hp]; rfl, ?_, h.top, ?_, ?_⟩
        · intro p hp' c hc
          simp only [List.mem_cons] at hp'
          rcases hp' with rfl | hp'
          · simp only [List.mem_cons] at hc
            rcases hc with rfl | hc
            · rfl
            · exact h.kids (k0, cs0) (by rw [hp]; exact List.mem_cons_self) c hc
          · exact h.kids p (by rw [hp]; exact List.mem_cons_of_mem _ hp') c hc
        · have hst := h.stack
          rw [hp] at hst
          cases ps with
          | nil => simp [stackOk]
          | cons p2 ps2 =>
            simp only [stackOk] at hst ⊢
            refine ⟨?_, hst.2⟩
            intro hk0 c hc
            cases cs0 with
            | nil =>
              simp only [List.getLast?_singleton, Option.some.injEq] at hc
              subst hc
              have hf := h.fresh k0 (p2 :: ps2) hp (by simp) hk0
              subst hf
              simp only [Bool.true_and, Bool.not_eq_true] at hft
              exact hft
            | cons c0 cs0' =>
              rw [getLast?_cons_of_ne _ (by simp)] at hc
              exact hst.1 hk0 c hc
        · intro k1 rest hp1 _ _
          cases hp1
  | enter k =>
    simp only [scanStep, Option.some.injEq, Prod.mk.injEq] at hs
    obtain ⟨rfl, rfl⟩ := hs
    simp only [tbStep] at ht
    cases ht
    refine ⟨by simp [h.depth], ?_, h.top, ?_, ?_⟩
    · intro p hp c hc
      simp only [List.mem_cons] at hp
      rcases hp with rfl | hp
      · cases hc
      · exact h.kids p hp c hc
    · cases hps : tb.parents with
      | nil => simp [stackOk]
      | cons p2 ps2 =>
        simp only [stackOk]
        exact ⟨(by intro _ c hc; cases hc), (by rw [← hps]; exact h.stack)⟩
    · intro k1 rest hp1 hrest hk1
      simp only [List.cons.injEq, Prod.mk.injEq] at hp1
      obtain ⟨⟨rfl, _⟩, rfl⟩ := hp1
      have : 0 < d := by
        rw [h.depth]; exact List.length_pos_iff.mpr hrest
      simp [hk1, this]
  | exit =>
    simp only [scanStep, Option.some.injEq, Prod.mk.injEq] at hs
    obtain ⟨rfl, rfl⟩ := hs
    simp only [tbStep] at ht
    rcases hp : tb.parents with _ | ⟨⟨k0, cs0⟩, ps⟩
    · rw [hp] at ht; cases ht
    · rw [hp] at ht
      simp only at ht
      cases ht
      have hkids0 : ∀ c ∈ cs0, headOkT c = true :=
        fun c hc => h.kids (k0, cs0) (by rw [hp]; exact List.mem_cons_self) c hc
      have hall : headOkTL cs0.reverse = true := by
        rw [headOkTL_iff]; intro c hc; exact hkids0 c (List.mem_reverse.mp hc)
      unfold TB.push
      cases ps with
      | nil =>
        refine ⟨by simp [h.depth, hp], by simp, ?_, by simp [stackOk], by simp⟩
        intro x hx
        simp only [List.mem_cons] at hx
        rcases hx with rfl | hx
        · exact hall
        · exact h.top x hx
      | cons p2 ps2 =>
        obtain ⟨k2, cs2⟩ := p2
        have hst := h.stack
        rw [hp] at hst
        simp only [stackOk] at hst
        have hnode : headOkT (.node k0 cs0.reverse) = true := by
          simp only [headOkT, Bool.and_eq_true, Bool.or_eq_true, Bool.not_eq_true']
          refine ⟨?_, hall⟩
          cases hk0 : headKind k0
          · exact Or.inl rfl
          · right
            rcases hr : cs0.reverse with _ | ⟨c, r⟩
            · rfl
            · have : cs0.getLast? = some c := by
                rw [← List.head?_reverse, hr]; rfl
              simp only [Bool.not_eq_true']
              exact hst.1 hk0 c this
        refine ⟨by simp [h.depth, hp], ?_, h.top, ?_, ?_⟩
        · intro p hp' c hc
          simp only [List.mem_cons] at hp'
          rcases hp' with rfl | hp'
          · simp only [List.mem_cons] at hc
            rcases hc with rfl | hc
            · exact hnode
            · exact h.kids (k2, cs2) (by rw [hp]; simp) c hc
          · exact h.kids p (by rw [hp]; simp [hp']) c hc
        · cases ps2 with
          | nil => simp [stackOk]
          | cons p3 ps3 =>
            have h2 := hst.2
            simp only [stackOk] at h2 ⊢
            refine ⟨?_, h2.2⟩
            intro hk2 c hc
            cases cs2 with
            | nil =>
              simp only [List.getLast?_singleton, Option.some.injEq] at hc
              subst hc; rfl
            | cons c2 cs2' =>
              rw [getLast?_cons_of_ne _ (by simp)] at hc
              exact h2.1 hk2 c hc
        · intro k1 rest hp1 _ _
          cases hp1

theorem tg_steps (out : List StrStep) {tb tb' : TB} {f : Bool} {d : Nat} {st : Bool × Nat}
    (h : TG tb f d) (hs : scanFrom (f, d) out = some st) (ht : tbSteps out tb = .ok tb') :
    TG tb' st.1 st.2 := by
  induction out generalizing tb f d with
  | nil =>
    simp only [scanFrom, List.foldlM_nil] at hs
    simp only [tbSteps] at ht
    cases ht
    cases hs
    exact h
  | cons x xs ih =>
    simp only [scanFrom, List.foldlM_cons] at hs
    simp only [tbSteps, bind, Except.bind] at ht
    cases h1 : scanStep (f, d) x with
    | none => rw [h1] at hs; cases hs
    | some s1 =>
      rw [h1] at hs
      cases h2 : tbStep tb x with
      | error e => rw [h2] at ht; cases ht
      | ok tb1 =>
        rw [h2] at ht
        obtain ⟨f1, d1⟩ := s1
        exact ih (tg_step x h h1 h2) hs ht

/-- **the builder's tree has no head-kind node (below the root) that starts with trivia** -/
theorem buildTree_rootHeadOkT {toks : List RawTok} {ss : List Step} {t : Tree} {e : List SynErr}
    {eof : Bool} (hk : tokenKindsOk ss = true) (h : buildTree toks ss = .ok (t, e, eof)) :
    rootHeadOkT t = true := by
  simp only [buildTree, bind, Except.bind] at h
  cases hi : intersperseTrivia toks ss with
  | error x => rw [hi] at h; cases h
  | ok p =>
    obtain ⟨out, f⟩ := p
    rw [hi] at h
    simp only at h
    obtain ⟨st, hst⟩ := intersperse_scan hk hi
    cases hr : tbSteps out {} with
    | error x => rw [hr] at h; cases h
    | ok r =>
      rw [hr] at h
      simp only at h
      have hg : TG ({} : TB) false 0 :=
        ⟨rfl, (by intro p hp; cases hp), (by intro x hx; cases hx), trivial, (by intro k rest hp; cases hp)⟩
      have hr' := tg_steps out hg hst hr
      cases hf : tbFinish r with
      | error x => rw [hf] at h; cases h
      | ok q =>
        obtain ⟨u, v⟩ := q
        rw [hf] at h
        simp only [Except.ok.injEq, Prod.mk.injEq] at h
        obtain ⟨rfl, _, _⟩ := h
        unfold tbFinish at hf
        split at hf
        · rename_i k cs htop
          simp only [Except.ok.injEq, Prod.mk.injEq] at hf
          rw [← hf.1]
          exact hr'.top _ (by rw [htop]; exact List.mem_cons_self)
        · cases hf

/-! ### the same on the `CNode` of the tree -/

mutual
theorem headOk_ofTree : ∀ (t : Tree) (off : Nat), headOk (ofTree t off).1 = headOkT t
  | .leaf k txt, off => rfl
  | .node k cs, off => by
    simp only [ofTree, headOk, headOkT, headLocal, CNode.children]
    rw [headOkL_ofTrees cs off]
    congr 2
    cases cs with
    | nil => rfl
    | cons c cs' => simp only [ofTrees, isTriviaTok_ofTree]
theorem headOkL_ofTrees : ∀ (cs : List Tree) (off : Nat), headOkL (ofTrees cs off).1 = headOkTL cs
  | [], off => rfl
  | c :: cs, off => by
    simp only [ofTrees, headOkL, headOkTL]
    rw [headOk_ofTree c off, headOkL_ofTrees cs _]
end

theorem rootHeadOk_cnodeOf (t : Tree) : Oq3.C17Layout.rootHeadOk (cnodeOf t) = rootHeadOkT t := by
  cases t with
  | leaf k txt => rfl
  | node k cs =>
    simp only [cnodeOf, ofTree, Oq3.C17Layout.rootHeadOk, CNode.children, rootHeadOkT]
    exact headOkL_ofTrees cs 0

end Oq3.BuilderLayout
