/-
The builder-side "fit" theorem for the end-to-end lossless result (C02), independent of the lexer:
if the token steps of a rooted step list fit the raw token table — every token step of `n` raw
tokens finds, after the leading trivia, `n` consecutive non-trivia tokens, and in the end only
trivia is left (`fitsGo`) — then `intersperse_trivia` fails none of its assertions
(`range_text`, `eat_n_trivias`, `kind`) and returns `is_eof = true`.

`fits_of_adj` derives `fitsGo` from the shape the parser invariant gives: token events account
for all non-trivia tokens (`sumI`), and the raw tokens glued into one event are adjacent in the
token table (`glueI (adjBits toks)`).
Core only.
-/
import Oq3.Lemmas.Builder
import Oq3.Lemmas.Process

namespace Oq3.Builder
open Oq3.Gen Oq3.Parser

/-! ### the raw token table: non-trivia projection and adjacency -/

/-- kinds of the non-trivia raw tokens, in order -/
def ntKinds (toks : List RawTok) : List SyntaxKind :=
  (toks.filter (fun t => !t.kind.isTrivia)).map (·.kind)

/-- the list starts with a non-trivia token -/
def headNonTrivia : List RawTok → Bool
  | [] => false
  | t :: _ => !t.kind.isTrivia

/-- bit `i`: the raw token right after the `i`-th non-trivia token exists and is not trivia -/
def adjBits : List RawTok → List Bool
  | [] => []
  | t :: rest => if t.kind.isTrivia then adjBits rest else headNonTrivia rest :: adjBits rest

/-- exactly `n` leading tokens, none of them trivia; the rest -/
def takeN : List RawTok → Nat → Option (List RawTok)
  | r, 0 => some r
  | [], _ + 1 => none
  | t :: r, n + 1 => if t.kind.isTrivia then none else takeN r n

/-- the token/error items fit the token table `r`: each token item of `n` raw tokens finds, after
the leading trivia, `n` consecutive non-trivia tokens; at the end only trivia is left -/
def fitsGo : List RawTok → List Item → Bool
  | r, [] => r.all (fun t => t.kind.isTrivia)
  | r, .token _ n :: is =>
    if n = 0 then false
    else
      match takeN (r.dropWhile (fun t => t.kind.isTrivia)) n with
      | some r' => fitsGo r' is
      | none => false
  | r, .error _ :: is => fitsGo r is

theorem takeN_zero (r : List RawTok) : takeN r 0 = some r := by cases r <;> rfl

theorem takeN_some {r r' : List RawTok} {n : Nat} (h : takeN r n = some r') :
    r' = r.drop n ∧ n ≤ r.length := by
  induction n generalizing r with
  | zero => rw [takeN_zero] at h; simp only [Option.some.injEq] at h; subst h; simp
  | succ n ih =>
    cases r with
    | nil => simp [takeN] at h
    | cons t r0 =>
      simp only [takeN] at h
      split at h
      · simp at h
      · obtain ⟨h1, h2⟩ := ih h
        exact ⟨by simpa using h1, by simp; omega⟩

/-- leading trivia is irrelevant to `fitsGo` -/
theorem fitsGo_cons_trivia (t : RawTok) (r : List RawTok) (is : List Item)
    (ht : t.kind.isTrivia = true) : fitsGo (t :: r) is = fitsGo r is := by
  induction is with
  | nil => simp [fitsGo, ht]
  | cons i is ih =>
    cases i with
    | token k n => simp [fitsGo, ht]
    | error m => simpa [fitsGo] using ih

theorem fitsGo_dropWhile (r : List RawTok) (is : List Item) :
    fitsGo (r.dropWhile (fun t => t.kind.isTrivia)) is = fitsGo r is := by
  induction r with
  | nil => rfl
  | cons t r ih =>
    cases ht : t.kind.isTrivia with
    | true => rw [List.dropWhile_cons, if_pos ht, ih, fitsGo_cons_trivia t r is ht]
    | false => rw [List.dropWhile_cons, if_neg (by simp [ht])]

theorem drop_takeWhile_length {α} (p : α → Bool) (l : List α) :
    l.drop (l.takeWhile p).length = l.dropWhile p := by
  induction l with
  | nil => rfl
  | cons x xs ih =>
    cases h : p x <;> simp [h, ih]

theorem mem_takeWhile_pred {α} (p : α → Bool) (l : List α) : ∀ x ∈ l.takeWhile p, p x = true := by
  induction l with
  | nil => intro x hx; simp at hx
  | cons y ys ih =>
    intro x hx
    rw [List.takeWhile_cons] at hx
    split at hx
    · rcases List.mem_cons.mp hx with rfl | hx
      · assumption
      · exact ih x hx
    · simp at hx

theorem takeWhile_eq_self {α} (p : α → Bool) (l : List α) (h : ∀ x ∈ l, p x = true) :
    l.takeWhile p = l := by
  induction l with
  | nil => rfl
  | cons y ys ih =>
    rw [List.takeWhile_cons, if_pos (h y (by simp)), ih (fun x hx => h x (by simp [hx]))]

/-! ### the builder primitives on positions -/

theorem eatTriviasAux_pos (rest : List RawTok) (b : B) :
    (eatTriviasAux rest b).pos = b.pos + (rest.takeWhile (fun t => t.kind.isTrivia)).length ∧
    (eatTriviasAux rest b).state = b.state := by
  induction rest generalizing b with
  | nil => exact ⟨rfl, rfl⟩
  | cons t rest ih =>
    simp only [eatTriviasAux]
    split
    · rename_i ht
      obtain ⟨h1, h2⟩ := ih (emit { b with pos := b.pos + 1 } (.token t.kind t.text))
      rw [h1, h2, List.takeWhile_cons, if_pos ht]
      simp [emit]; omega
    · rename_i ht
      rw [List.takeWhile_cons, if_neg ht]; exact ⟨rfl, rfl⟩

/-- `eat_trivias` moves `pos` exactly over the leading trivia -/
theorem eatTrivias_drop (toks : List RawTok) (b : B) :
    toks.drop (eatTrivias toks b).pos = (toks.drop b.pos).dropWhile (fun t => t.kind.isTrivia) ∧
    (eatTrivias toks b).state = b.state := by
  obtain ⟨h1, h2⟩ := eatTriviasAux_pos (toks.drop b.pos) b
  refine ⟨?_, h2⟩
  unfold eatTrivias
  rw [h1, ← List.drop_drop, drop_takeWhile_length]

/-- `eat_n_trivias(m)` succeeds when at least `m` trivia tokens lead at `pos` -/
theorem eatNTrivias_ok (toks : List RawTok) (m : Nat) (b : B)
    (h : m ≤ ((toks.drop b.pos).takeWhile (fun t => t.kind.isTrivia)).length) :
    ∃ b', eatNTrivias toks m b = .ok b' ∧ b'.pos = b.pos + m ∧ b'.state = b.state := by
  induction m generalizing b with
  | zero => exact ⟨b, rfl, rfl, rfl⟩
  | succ m ih =>
    cases hd : toks.drop b.pos with
    | nil => rw [hd] at h; simp at h
    | cons t r =>
      rw [hd, List.takeWhile_cons] at h
      have ht : t.kind.isTrivia = true := by
        cases htt : t.kind.isTrivia with
        | true => rfl
        | false => simp [htt] at h
      rw [if_pos ht] at h
      have hget : toks[b.pos]? = some t := by
        have := congrArg List.head? hd
        simpa [List.head?_drop] using this
      have hd' : toks.drop (b.pos + 1) = r := by
        have := congrArg List.tail hd
        simpa [List.tail_drop] using this
      obtain ⟨b', h1, h2, h3⟩ := ih (emit { b with pos := b.pos + 1 } (.token t.kind t.text))
        (by simp only [emit]; rw [hd']; simpa using h)
      refine ⟨b', ?_, ?_, ?_⟩
      · simp only [eatNTrivias, hget, ht, Bool.not_true, Bool.false_eq_true, if_false]; exact h1
      · rw [h2]; simp [emit]; omega
      · rw [h3]; simp [emit]

theorem nAttachedConst_le (l : List RawTok) (i res : Nat) (h : res ≤ i + l.length) :
    nAttachedConst l i res ≤ i + l.length := by
  fun_induction nAttachedConst l i res <;> simp_all <;> omega

theorem nAttachedTrivias_le (k : SyntaxKind) (l : List RawTok) : nAttachedTrivias k l ≤ l.length := by
  unfold nAttachedTrivias
  split
  · have := nAttachedConst_le l 0 0 (by omega); omega
  · omega

theorem flushPending_ok (b : B) (h : b.state ≠ .pendingEnter) :
    ∃ b', flushPending b = .ok b' ∧ b'.pos = b.pos ∧ b'.state = .normal := by
  unfold flushPending
  split
  · rename_i hs; exact absurd hs h
  · exact ⟨_, rfl, rfl, rfl⟩
  · exact ⟨_, rfl, rfl, rfl⟩

/-! ### one step, all steps -/

theorem step_fit (toks : List RawTok) (b : B) (s : Step) (ss : List Step)
    (hst : b.state ≠ .pendingEnter)
    (hfit : fitsGo (toks.drop b.pos) (itemsS (s :: ss)) = true) :
    ∃ b', step toks b s = .ok b' ∧ b'.state ≠ .pendingEnter ∧
      fitsGo (toks.drop b'.pos) (itemsS ss) = true := by
  cases s with
  | token k n =>
    obtain ⟨b1, hb1, hp1, hs1⟩ := flushPending_ok b hst
    obtain ⟨hd2, hs2⟩ := eatTrivias_drop toks b1
    simp only [itemsS, fitsGo] at hfit
    split at hfit
    · simp at hfit
    · rename_i hn
      rw [← hp1, ← hd2] at hfit
      split at hfit
      · rename_i r' hr'
        obtain ⟨hr1, hr2⟩ := takeN_some hr'
        have hfits : (eatTrivias toks b1).pos + n ≤ toks.length := by
          simp only [List.length_drop] at hr2; omega
        refine ⟨emit { eatTrivias toks b1 with pos := (eatTrivias toks b1).pos + n }
          (.token k (((toks.drop (eatTrivias toks b1).pos).take n).map (·.text)).flatten), ?_, ?_, ?_⟩
        · simp only [step, hb1, bind, Except.bind, doToken]
          rw [if_neg (by omega)]
        · simp [emit, hs2, hs1]
        · simp only [emit]
          rw [← List.drop_drop, ← hr1]; exact hfit
      · simp at hfit
  | enter k =>
    obtain ⟨b1, hb1, hp1, hs1⟩ := flushPending_ok b hst
    simp only [itemsS] at hfit
    -- the leading trivia at `pos`
    have hlead : ∀ p, nAttachedTrivias k ((toks.drop p).takeWhile (fun t => t.kind.isTrivia)).reverse ≤
        ((toks.drop p).takeWhile (fun t => t.kind.isTrivia)).length := by
      intro p
      have := nAttachedTrivias_le k ((toks.drop p).takeWhile (fun t => t.kind.isTrivia)).reverse
      simpa using this
    let leading := (toks.drop b1.pos).takeWhile (fun t => t.kind.isTrivia)
    let nAtt := nAttachedTrivias k leading.reverse
    have hnAtt : nAtt ≤ leading.length := hlead b1.pos
    obtain ⟨b2, hb2, hp2, hs2⟩ := eatNTrivias_ok toks (leading.length - nAtt) b1 (Nat.sub_le leading.length nAtt)
    -- after the first batch, `nAtt` trivia tokens still lead
    have hrest : nAtt ≤ ((toks.drop (emit b2 (.enter k)).pos).takeWhile
        (fun t => t.kind.isTrivia)).length := by
      simp only [emit, hp2]
      rw [← List.drop_drop]
      have hsplit : toks.drop b1.pos = leading ++ (toks.drop b1.pos).dropWhile (fun t => t.kind.isTrivia) :=
        (List.takeWhile_append_dropWhile).symm
      rw [hsplit, List.drop_append_of_le_length (by omega)]
      have hall : ∀ t ∈ leading.drop (leading.length - nAtt), t.kind.isTrivia = true := by
        intro t ht
        exact mem_takeWhile_pred _ _ t (List.mem_of_mem_drop ht)
      have : (leading.drop (leading.length - nAtt)).length ≤
          ((leading.drop (leading.length - nAtt) ++
            (toks.drop b1.pos).dropWhile (fun t => t.kind.isTrivia)).takeWhile
              (fun t => t.kind.isTrivia)).length := by
        rw [List.takeWhile_append_of_pos hall]; simp
      simp only [List.length_drop] at this
      omega
    obtain ⟨b3, hb3, hp3, hs3⟩ := eatNTrivias_ok toks nAtt (emit b2 (.enter k)) hrest
    refine ⟨b3, ?_, ?_, ?_⟩
    · simp only [step]
      · simp only [hb1, bind, Except.bind]
        have hb2' := hb2
        have hb3' := hb3
        simp only [leading, nAtt] at hb2' hb3'
        simp only [hb2']
        exact hb3'
    · rw [hs3]; simp [emit, hs2, hs1]
    · have hpos : b3.pos = b1.pos + leading.length := by
        rw [hp3]; simp only [emit, hp2]; omega
      rw [hpos, ← List.drop_drop, drop_takeWhile_length, fitsGo_dropWhile, hp1]
      exact hfit
  | exit =>
    simp only [itemsS] at hfit
    simp only [step]
    split
    · rename_i hs; exact absurd hs hst
    · exact ⟨_, rfl, by simp [emit], by simpa [emit] using hfit⟩
    · exact ⟨_, rfl, by simp, hfit⟩
  | error msg =>
    simp only [itemsS, fitsGo] at hfit
    exact ⟨_, rfl, by simpa [emit] using hst, by simpa [emit] using hfit⟩

theorem steps_fit (toks : List RawTok) (ss : List Step) (b : B) (hst : b.state ≠ .pendingEnter)
    (hfit : fitsGo (toks.drop b.pos) (itemsS ss) = true) :
    ∃ b', steps toks ss b = .ok b' ∧ (toks.drop b'.pos).all (fun t => t.kind.isTrivia) = true := by
  induction ss generalizing b with
  | nil => exact ⟨b, rfl, by simpa [itemsS, fitsGo] using hfit⟩
  | cons s ss ih =>
    obtain ⟨b1, h1, hs1, hf1⟩ := step_fit toks b s ss hst hfit
    obtain ⟨b', h2, h3⟩ := ih b1 hs1 hf1
    exact ⟨b', by simp only [steps, h1, bind, Except.bind]; exact h2, h3⟩

/-- **Fit theorem.**  On a rooted step list whose items fit the token table,
`intersperse_trivia` returns normally with `is_eof = true`. -/
theorem intersperse_fits (toks : List RawTok) (ss : List Step) (hr : rooted ss = true)
    (hfit : fitsGo toks (itemsS ss) = true) :
    ∃ out, intersperseTrivia toks ss = .ok (out, true) := by
  match ss, hr with
  | .enter k :: rest, hr =>
    simp only [rooted] at hr
    simp only [itemsS] at hfit
    let b0 : B := emit { ({} : B) with state := .normal } (.enter k)
    obtain ⟨b, hb, hall⟩ := steps_fit toks rest b0 (by simp [b0, emit]) (by simpa [b0, emit] using hfit)
    have hsteps : steps toks (.enter k :: rest) {} = .ok b := by
      simp only [steps, step, bind, Except.bind]; exact hb
    -- the final state is `PendingExit` (rootedness), as in `Props.C02.steps_rooted`
    have hbase : BInv toks b0 1 := by
      have tbinv_nil : TBInv [] 0 {} :=
        ⟨rfl, rfl, rfl, by simp [TB.leaves, tokensOf, Tree.leavesList], rfl⟩
      refine ⟨by simp [b0, emit], by simp [b0, emit, tokensOf, textsOf, rawText], by simp [b0, emit],
        by simp, ⟨{ ({} : TB) with parents := [(k, [])] }, ?_⟩⟩
      simpa [b0, emit, pendingExtra] using tbinv_nil.emit_enter k
    have hinv := steps_inv rest b0 b 1 hbase hr hb
    have hst := hinv.root rfl
    obtain ⟨hp, _⟩ := eatTriviasAux_pos (toks.drop b.pos) b
    have htw : (toks.drop b.pos).takeWhile (fun t => t.kind.isTrivia) = toks.drop b.pos := by
      exact takeWhile_eq_self _ _ (fun t ht => (List.all_eq_true.mp hall) t ht)
    have hpos : (eatTrivias toks b).pos = toks.length := by
      unfold eatTrivias
      rw [hp, htw, List.length_drop]
      have := hinv.pos_le; omega
    refine ⟨(emit (eatTrivias toks b) .exit).out, ?_⟩
    simp only [intersperseTrivia, hsteps, bind, Except.bind, hst]
    simp [emit, hpos]

/-! ### from the parser invariant's shape to `fitsGo` -/

/-- `glueOK` on items over a list of bits: every token item has `n ≥ 1` and bits
`c … c+n-2` are set (`c` = raw tokens consumed before) -/
def glueI (J : List Bool) : Nat → List Item → Bool
  | _, [] => true
  | c, .token _ n :: is =>
    decide (n ≥ 1) && (List.range (n - 1)).all (fun j => J.getD (c + j) false) && glueI J (c + n) is
  | c, .error _ :: is => glueI J c is

/-- raw tokens accounted for by the token items -/
def sumI : List Item → Nat
  | [] => 0
  | .token _ n :: is => n + sumI is
  | .error _ :: is => sumI is

theorem adjBits_dropWhile (r : List RawTok) :
    adjBits (r.dropWhile (fun t => t.kind.isTrivia)) = adjBits r ∧
    ntKinds (r.dropWhile (fun t => t.kind.isTrivia)) = ntKinds r := by
  induction r with
  | nil => exact ⟨rfl, rfl⟩
  | cons t r ih =>
    cases ht : t.kind.isTrivia with
    | true => rw [List.dropWhile_cons, if_pos ht]; simp [adjBits, ntKinds, ht] at ih ⊢; exact ih
    | false => rw [List.dropWhile_cons, if_neg (by simp [ht])]; exact ⟨rfl, rfl⟩

theorem headNonTrivia_dropWhile (r : List RawTok)
    (h : r.dropWhile (fun t => t.kind.isTrivia) ≠ []) :
    headNonTrivia (r.dropWhile (fun t => t.kind.isTrivia)) = true := by
  induction r with
  | nil => exact absurd rfl h
  | cons t r ih =>
    cases ht : t.kind.isTrivia with
    | true =>
      rw [List.dropWhile_cons, if_pos ht] at h ⊢
      exact ih h
    | false =>
      rw [List.dropWhile_cons, if_neg (by simp [ht])]
      simp [headNonTrivia, ht]

/-- `n` adjacent non-trivia tokens can be taken -/
theorem takeN_adj (n : Nat) : ∀ (r : List RawTok), n ≤ (ntKinds r).length →
    (n = 0 ∨ headNonTrivia r = true) →
    (∀ j, j + 1 < n → (adjBits r).getD j false = true) →
    ∃ r', takeN r n = some r' ∧ adjBits r' = (adjBits r).drop n ∧ ntKinds r' = (ntKinds r).drop n := by
  induction n with
  | zero => intro r _ _ _; exact ⟨r, takeN_zero r, rfl, rfl⟩
  | succ n ih =>
    intro r hn hh hadj
    cases r with
    | nil => simp [ntKinds] at hn
    | cons t r0 =>
      have ht : t.kind.isTrivia = false := by
        rcases hh with h | h
        · omega
        · simpa [headNonTrivia] using h
      have hnt : ntKinds (t :: r0) = t.kind :: ntKinds r0 := by simp [ntKinds, ht]
      have hab : adjBits (t :: r0) = headNonTrivia r0 :: adjBits r0 := by simp [adjBits, ht]
      rw [hnt] at hn
      obtain ⟨r', h1, h2, h3⟩ := ih r0 (by simpa using hn)
        (by
          by_cases h0 : n = 0
          · exact Or.inl h0
          · right
            have := hadj 0 (by omega)
            rwa [hab, List.getD_cons_zero] at this)
        (fun j hj => by
          have := hadj (j + 1) (by omega)
          rwa [hab, List.getD_cons_succ] at this)
      refine ⟨r', by simp only [takeN, ht]; exact h1, ?_, ?_⟩
      · rw [h2, hab, List.drop_succ_cons]
      · rw [h3, hnt, List.drop_succ_cons]

theorem glueI_shift (J : List Bool) (n : Nat) (is : List Item) (c : Nat) :
    glueI (J.drop n) c is = glueI J (n + c) is := by
  induction is generalizing c with
  | nil => rfl
  | cons i is ih =>
    cases i with
    | token k m =>
      simp only [glueI, ih, List.getD_eq_getElem?_getD, List.getElem?_drop]
      simp [Nat.add_assoc]
    | error e => simp only [glueI, ih]

/-- **From the parser's accounting to `fitsGo`**: the token items account for all non-trivia raw
tokens and the tokens glued into one item are adjacent in the token table. -/
theorem fits_of_adj (is : List Item) : ∀ (r : List RawTok),
    glueI (adjBits r) 0 is = true → sumI is = (ntKinds r).length → fitsGo r is = true := by
  induction is with
  | nil =>
    intro r _ hs
    simp only [sumI] at hs
    simp only [fitsGo, List.all_eq_true]
    intro t ht
    cases htr : t.kind.isTrivia with
    | true => rfl
    | false =>
      exfalso
      have : t.kind ∈ ntKinds r := by
        simp only [ntKinds, List.mem_map, List.mem_filter]
        exact ⟨t, ⟨ht, by simp [htr]⟩, rfl⟩
      rw [List.eq_nil_of_length_eq_zero hs.symm] at this
      simp at this
  | cons i is ih =>
    intro r hg hs
    cases i with
    | error m => simp only [glueI, sumI, fitsGo] at hg hs ⊢; exact ih r hg hs
    | token k n =>
      simp only [glueI, Bool.and_eq_true, decide_eq_true_eq, List.all_eq_true, List.mem_range,
        Nat.zero_add] at hg
      simp only [sumI] at hs
      obtain ⟨⟨hn, hadj⟩, hrest⟩ := hg
      obtain ⟨ha, hk⟩ := adjBits_dropWhile r
      have hne : r.dropWhile (fun t => t.kind.isTrivia) ≠ [] := by
        intro he
        rw [he] at hk
        have : (ntKinds r).length = 0 := by rw [← hk]; rfl
        omega
      obtain ⟨r', h1, h2, h3⟩ := takeN_adj n (r.dropWhile (fun t => t.kind.isTrivia))
        (by rw [hk]; omega) (Or.inr (headNonTrivia_dropWhile r hne))
        (fun j hj => by rw [ha]; exact hadj j (by omega))
      simp only [fitsGo]
      rw [if_neg (by omega), h1]
      apply ih r'
      · rw [h2, ha, glueI_shift]; simpa using hrest
      · rw [h3, hk, List.length_drop]; omega

end Oq3.Builder
