/-
`eraseTrivia` on the concrete syntax tree and the fact that every accessor of
`Model/Accessors.lean` COMMUTES with it: an accessor applied to the erased node returns the erased
constituent (`A (E n) = (A n).map E`); accessors that return text or an operator return the same
value.  Used by `Props/C17Layout.lean`.

`eraseTrivia` drops every WHITESPACE/COMMENT *token* child, at every level, and sets every
`start`/`stop` to 0.

The only accessors that look at a child WITHOUT skipping trivia are `text_of_first_token`
(`Name`/`Identifier`/`HardwareQubit`/`Param` text, `pragma_text`, `annotation_text`) and
`PrefixExpr::op_token` (`first_child_or_token`): they read the FIRST child, trivia or not.  For
these the commutation needs the node not to start with a trivia token (`headLocal`); `headOk`
states that for all nodes of those seven kinds in a tree.  The tree builder guarantees it
(trivia before a node is attached outside, in front of it) — see `Lemmas/BuilderLayout.lean`.
-/
import Oq3.Lemmas.AccBuild

namespace Oq3.Acc
open Oq3.Gen

/-- a WHITESPACE / COMMENT token -/
def isTriviaTok (c : CNode) : Bool := c.isToken && c.kind.isTrivia

mutual
def eraseTrivia : CNode → CNode
  | .node k _ _ cs => .node k 0 0 (eraseTriviaL cs)
  | .token k _ _ t => .token k 0 0 t
def eraseTriviaL : List CNode → List CNode
  | [] => []
  | c :: cs => if isTriviaTok c then eraseTriviaL cs else eraseTrivia c :: eraseTriviaL cs
end

local notation "E" => eraseTrivia

theorem eraseTriviaL_eq (cs : List CNode) :
    eraseTriviaL cs = (cs.filter (fun c => !isTriviaTok c)).map E := by
  induction cs with
  | nil => rfl
  | cons c cs ih =>
    by_cases h : isTriviaTok c = true <;> simp [eraseTriviaL, h, ih]

/-- the kinds whose accessors read the first child without skipping trivia -/
def headKind : SyntaxKind → Bool
  | .NAME | .IDENTIFIER | .HARDWARE_QUBIT | .PARAM | .PRAGMA_STATEMENT | .ANNOTATION_STATEMENT
  | .PREFIX_EXPR => true
  | _ => false

/-- the node does not start with a trivia token -/
def headLocal (n : CNode) : Bool :=
  match n.children with
  | c :: _ => !isTriviaTok c
  | [] => true

mutual
/-- no node of a `headKind` anywhere in the tree starts with a trivia token -/
def headOk : CNode → Bool
  | .node k s e cs => (!headKind k || headLocal (.node k s e cs)) && headOkL cs
  | .token .. => true
def headOkL : List CNode → Bool
  | [] => true
  | c :: cs => headOk c && headOkL cs
end

theorem headOkL_mem {cs : List CNode} (h : headOkL cs = true) {c : CNode} (hc : c ∈ cs) :
    headOk c = true := by
  induction cs with
  | nil => cases hc
  | cons d ds ih =>
    simp only [headOkL, Bool.and_eq_true] at h
    rcases List.mem_cons.mp hc with rfl | hm
    · exact h.1
    · exact ih h.2 hm

theorem headOk_children {n c : CNode} (h : headOk n = true) (hc : c ∈ n.children) : headOk c = true := by
  cases n with
  | token => cases hc
  | node k s e cs =>
    simp only [headOk, Bool.and_eq_true] at h
    exact headOkL_mem h.2 hc

theorem headOk_local {n : CNode} (h : headOk n = true) (hk : headKind n.kind = true) :
    headLocal n = true := by
  cases n with
  | token => rfl
  | node k s e cs =>
    simp only [headOk, Bool.and_eq_true, Bool.or_eq_true, Bool.not_eq_true'] at h
    simp only [CNode.kind] at hk
    rcases h.1 with h1 | h1
    · rw [hk] at h1; cases h1
    · exact h1

/-! ### basic projections -/

@[simp] theorem kind_E (c : CNode) : (E c).kind = c.kind := by cases c <;> rfl
@[simp] theorem isNode_E (c : CNode) : (E c).isNode = c.isNode := by cases c <;> rfl
@[simp] theorem isToken_E (c : CNode) : (E c).isToken = c.isToken := by cases c <;> rfl
@[simp] theorem tokenText_E (c : CNode) : (E c).tokenText = c.tokenText := by cases c <;> rfl
@[simp] theorem start_E (c : CNode) : (E c).start = 0 := by cases c <;> rfl
@[simp] theorem stop_E (c : CNode) : (E c).stop = 0 := by cases c <;> rfl
@[simp] theorem isTriviaTok_E (c : CNode) : isTriviaTok (E c) = isTriviaTok c := by simp [isTriviaTok]

theorem span_E (c : CNode) : Build.span (E c) = ⟨0, 0⟩ := by simp [Build.span]

theorem children_E (n : CNode) :
    (E n).children = (n.children.filter (fun c => !isTriviaTok c)).map E := by
  cases n with
  | token => rfl
  | node k s e cs => simp [eraseTrivia, CNode.children, eraseTriviaL_eq]

theorem filter_isNode_E (l : List CNode) :
    ((l.filter (fun c => !isTriviaTok c)).map E).filter CNode.isNode = (l.filter CNode.isNode).map E := by
  induction l with
  | nil => rfl
  | cons c cs ih =>
    cases c with
    | node k s e ch =>
      have a : isTriviaTok (.node k s e ch) = false := rfl
      have b : (E (.node k s e ch)).isNode = true := rfl
      have c : (CNode.node k s e ch).isNode = true := rfl
      simp only [List.filter_cons, a, b, c, Bool.not_false, if_true, List.map_cons, ih]
    | token k s e t =>
      have a : isTriviaTok (.token k s e t) = k.isTrivia := rfl
      have b : (E (.token k s e t)).isNode = false := rfl
      have c : (CNode.token k s e t).isNode = false := rfl
      cases h : k.isTrivia <;>
        simp only [List.filter_cons, a, b, c, h, Bool.not_false, Bool.not_true, if_true, if_false,
          Bool.false_eq_true, List.map_cons, ih]

theorem filter_isToken_E (l : List CNode) :
    ((l.filter (fun c => !isTriviaTok c)).map E).filter CNode.isToken =
      ((l.filter CNode.isToken).filter (fun c => !c.kind.isTrivia)).map E := by
  induction l with
  | nil => rfl
  | cons c cs ih =>
    cases c with
    | node k s e ch =>
      have a : isTriviaTok (.node k s e ch) = false := rfl
      have b : (E (.node k s e ch)).isToken = false := rfl
      have c : (CNode.node k s e ch).isToken = false := rfl
      simp only [List.filter_cons, a, b, c, Bool.not_false, if_true, if_false, Bool.false_eq_true,
        List.map_cons, ih]
    | token k s e t =>
      have a : isTriviaTok (.token k s e t) = k.isTrivia := rfl
      have b : (E (.token k s e t)).isToken = true := rfl
      have c : (CNode.token k s e t).isToken = true := rfl
      have d : (CNode.token k s e t).kind = k := rfl
      cases h : k.isTrivia <;>
        simp only [List.filter_cons, a, b, c, d, h, Bool.not_false, Bool.not_true, if_true, if_false,
          Bool.false_eq_true, List.map_cons, ih]

theorem childNodes_E (n : CNode) : (E n).childNodes = n.childNodes.map E := by
  simp only [CNode.childNodes, children_E, filter_isNode_E]

theorem childTokens_E (n : CNode) :
    (E n).childTokens = (n.childTokens.filter (fun c => !c.kind.isTrivia)).map E := by
  simp only [CNode.childTokens, children_E, filter_isToken_E]

/-! ### `support` -/

theorem cast_E (can : SyntaxKind → Bool) (c : CNode) : cast can (E c) = (cast can c).map E := by
  unfold cast; simp only [kind_E]; split <;> rfl

theorem children_supp_E (can : SyntaxKind → Bool) (n : CNode) :
    support.children can (E n) = (support.children can n).map E := by
  unfold support.children
  rw [childNodes_E]
  induction n.childNodes with
  | nil => rfl
  | cons c cs ih =>
    simp only [List.map_cons, List.filterMap_cons, cast_E]
    cases cast can c <;> simp [ih]

theorem child_supp_E (can : SyntaxKind → Bool) (n : CNode) :
    support.child can (E n) = (support.child can n).map E := by
  unfold support.child
  rw [childNodes_E]
  induction n.childNodes with
  | nil => rfl
  | cons c cs ih =>
    simp only [List.map_cons, List.findSome?_cons, cast_E]
    cases cast can c <;> simp [ih]

theorem token_supp_isSome_E (n : CNode) (k : SyntaxKind) (hk : k.isTrivia = false) :
    (support.token (E n) k).isSome = (support.token n k).isSome := by
  unfold support.token
  rw [childTokens_E]
  induction n.childTokens with
  | nil => rfl
  | cons c cs ih =>
    cases ht : c.kind.isTrivia
    · simp only [List.filter_cons, ht, Bool.not_false, if_true, List.map_cons, List.find?_cons, kind_E]
      cases c.kind == k
      · exact ih
      · rfl
    · have hck : (c.kind == k) = false := by
        cases hck : c.kind == k
        · rfl
        · rw [eq_of_beq hck] at ht; rw [ht] at hk; cases hk
      simp only [List.filter_cons, ht, Bool.not_true, Bool.false_eq_true, if_false, List.find?_cons, hck]
      exact ih

/-- a child found by `support.child` is a child -/
theorem child_supp_mem {can : SyntaxKind → Bool} {n c : CNode} (h : support.child can n = some c) :
    c ∈ n.children := by
  unfold support.child at h
  obtain ⟨d, hd, hc⟩ := List.exists_of_findSome?_eq_some h
  simp only [cast] at hc
  split at hc
  · cases hc; exact (List.mem_filter.mp hd).1
  · cases hc

theorem children_supp_mem {can : SyntaxKind → Bool} {n c : CNode} (h : c ∈ support.children can n) :
    c ∈ n.children := by
  unfold support.children at h
  obtain ⟨d, hd, hc⟩ := List.mem_filterMap.mp h
  simp only [cast] at hc
  split at hc
  · cases hc; exact (List.mem_filter.mp hd).1
  · cases hc

/-! ### `PRes`, `BlockOrStmt`, `LiteralKind` maps -/

def PRes.map {α β : Type} (f : α → β) : PRes α → PRes β
  | .ok a => .ok (f a)
  | .panic => .panic

def BlockOrStmt.mapE : BlockOrStmt → BlockOrStmt
  | .blockExpr b => .blockExpr (E b)
  | .stmt s => .stmt (E s)

def LiteralKind.mapE : LiteralKind → LiteralKind
  | .bitString t => .bitString (E t)
  | .bool b => .bool b
  | .byte t => .byte (E t)
  | .char t => .char (E t)
  | .floatNumber t => .floatNumber (E t)
  | .intNumber t => .intNumber (E t)
  | .string t => .string (E t)

theorem literalKind_mapE (k : LiteralKind) : Build.literalKind k.mapE = Build.literalKind k := by
  cases k <;> simp [LiteralKind.mapE, Build.literalKind]

/-! ### the hand-written accessors -/

theorem head?_map_getElem {α β} (f : α → β) (l : List α) (i : Nat) : (l.map f)[i]? = (l[i]?).map f := by
  simp

/-- first child, erased: the first child that is not a trivia token -/
theorem head_children_E {n : CNode} (h : headLocal n = true) :
    (E n).children.head? = n.children.head?.map E := by
  rw [children_E]
  unfold headLocal at h
  rcases hc : n.children with _ | ⟨c, r⟩
  · rfl
  · rw [hc] at h
    simp only [Bool.not_eq_true'] at h
    simp [List.filter_cons, h]

theorem textOfFirstToken_E {n : CNode} (h : headLocal n = true) :
    textOfFirstToken (E n) = textOfFirstToken n := by
  unfold textOfFirstToken
  rw [head_children_E h]
  rcases n.children.head? with _ | c
  · rfl
  · cases c <;> rfl

theorem text_E {n : CNode} (h : headLocal n = true) : HasTextNode.text (E n) = HasTextNode.text n :=
  textOfFirstToken_E h

theorem pragma_text_E {n : CNode} (h : headLocal n = true) :
    PragmaStatement.pragma_text (E n) = PragmaStatement.pragma_text n := by
  unfold PragmaStatement.pragma_text; rw [textOfFirstToken_E h]

theorem annotation_text_E {n : CNode} (h : headLocal n = true) :
    AnnotationStatement.annotation_text (E n) = AnnotationStatement.annotation_text n :=
  textOfFirstToken_E h

theorem prefix_op_kind_E {n : CNode} (h : headLocal n = true) :
    PrefixExpr.op_kind (E n) = PrefixExpr.op_kind n := by
  unfold PrefixExpr.op_kind PrefixExpr.op_token
  rw [head_children_E h]
  rcases n.children.head? with _ | c
  · rfl
  · cases c <;> simp [CNode.isToken, eraseTrivia, CNode.kind]

theorem assign_rhs_E (n : CNode) : AssignmentStmt.rhs (E n) = (AssignmentStmt.rhs n).map E := by
  unfold AssignmentStmt.rhs
  simp only [children_supp_E, List.head?_map, head?_map_getElem, Option.isSome_map]
  split <;> rfl

theorem condition_E (n : CNode) : IfStmt.condition (E n) = (IfStmt.condition n).map E := by
  unfold IfStmt.condition
  simp only [children_supp_E, List.head?_map, head?_map_getElem]
  rcases (support.children Expr.canCast n).head? with _ | e
  · rfl
  · simp only [Option.map_some, Expr.isBlockExpr, kind_E]
    by_cases hb : (e.kind == SyntaxKind.BLOCK_EXPR) = true
    · simp only [hb, if_true]
      cases (support.children Expr.canCast n)[1]? <;> rfl
    · simp only [hb, if_false]; rfl

theorem while_condition_E (n : CNode) : WhileStmt.condition (E n) = (WhileStmt.condition n).map E :=
  condition_E n

theorem then_branch_block_E (n : CNode) :
    IfStmt.then_branch_block (E n) = (IfStmt.then_branch_block n).map E := by
  unfold IfStmt.then_branch_block
  simp only [children_supp_E, head?_map_getElem]
  rcases (support.children Expr.canCast n)[1]? with _ | e
  · rfl
  · simp only [Option.map_some, Expr.isBlockExpr, kind_E]
    by_cases hb : (e.kind == SyntaxKind.BLOCK_EXPR) = true <;> simp [hb]

theorem else_branch_block_E (n : CNode) :
    IfStmt.else_branch_block (E n) = (IfStmt.else_branch_block n).map E := by
  unfold IfStmt.else_branch_block
  simp only [children_supp_E, head?_map_getElem]
  rcases (support.children Expr.canCast n)[2]? with _ | e
  · rfl
  · simp only [Option.map_some, Expr.isBlockExpr, kind_E]
    by_cases hb : (e.kind == SyntaxKind.BLOCK_EXPR) = true <;> simp [hb]

theorem if_true_body_E (n : CNode) :
    IfStmt.true_body_block_or_stmt (E n) = (IfStmt.true_body_block_or_stmt n).map BlockOrStmt.mapE := by
  unfold IfStmt.true_body_block_or_stmt IfStmt.then_branch_stmt
  rw [then_branch_block_E, child_supp_E]
  cases IfStmt.then_branch_block n <;> cases support.child Stmt.canCast n <;> rfl

theorem if_false_body_E (n : CNode) :
    IfStmt.false_body_block_or_stmt (E n) = (IfStmt.false_body_block_or_stmt n).map BlockOrStmt.mapE := by
  unfold IfStmt.false_body_block_or_stmt IfStmt.else_branch_stmt
  rw [else_branch_block_E, child_supp_E]
  cases IfStmt.else_branch_block n <;> cases support.child Stmt.canCast n <;> rfl

theorem while_block_or_stmt_E (n : CNode) :
    WhileStmt.block_or_stmt (E n) = (WhileStmt.block_or_stmt n).map BlockOrStmt.mapE := by
  unfold WhileStmt.block_or_stmt WhileStmt.body WhileStmt.stmt
  simp only [children_supp_E, List.head?_map]
  cases (support.children BlockExpr.canCast n).head? <;>
    cases (support.children Stmt.canCast n).head? <;> rfl

theorem for_block_or_stmt_E (n : CNode) :
    ForStmt.block_or_stmt (E n) = (ForStmt.block_or_stmt n).map BlockOrStmt.mapE := by
  unfold ForStmt.block_or_stmt ForStmt.body ForStmt.stmt
  simp only [child_supp_E]
  cases support.child BlockExpr.canCast n <;> cases support.child Stmt.canCast n <;> rfl

theorem binaryOpOfKind_trivia (k : SyntaxKind) (h : k.isTrivia = true) : binaryOpOfKind k = none := by
  cases k <;> first | rfl | cases h

theorem bin_op_kind_E (n : CNode) : BinExpr.op_kind (E n) = BinExpr.op_kind n := by
  unfold BinExpr.op_kind BinExpr.op_details
  rw [childTokens_E]
  induction n.childTokens with
  | nil => rfl
  | cons c cs ih =>
    by_cases ht : c.kind.isTrivia = true
    · have : binaryOpOfKind c.kind = none := binaryOpOfKind_trivia _ ht
      simp only [List.filter_cons, ht, Bool.not_true, Bool.false_eq_true, if_false,
        List.findSome?_cons, this, Option.map_none]
      exact ih
    · simp only [Bool.not_eq_true] at ht
      simp only [List.filter_cons, ht, Bool.not_false, if_true, List.map_cons, List.findSome?_cons, kind_E]
      cases binaryOpOfKind c.kind with
      | none => simpa using ih
      | some op => rfl

theorem bin_lhs_E (n : CNode) : BinExpr.lhs (E n) = (BinExpr.lhs n).map E := by
  unfold BinExpr.lhs; simp [children_supp_E]

theorem bin_rhs_E (n : CNode) : BinExpr.rhs (E n) = (BinExpr.rhs n).map E := by
  unfold BinExpr.rhs; simp [children_supp_E]

theorem range_sss_E (n : CNode) :
    RangeExpr.start_step_stop (E n) =
      ((RangeExpr.start_step_stop n).1.map E, (RangeExpr.start_step_stop n).2.1.map E,
       (RangeExpr.start_step_stop n).2.2.map E) := by
  unfold RangeExpr.start_step_stop
  simp only [children_supp_E, List.head?_map, head?_map_getElem, Option.isNone_map]
  split <;> rfl

theorem firstNonTriviaToken_E (n : CNode) :
    firstNonTriviaToken (E n) = (firstNonTriviaToken n).map E := by
  unfold firstNonTriviaToken
  rw [children_E]
  have : ((n.children.filter (fun c => !isTriviaTok c)).map E).find? (fun e => !e.kind.isTrivia) =
      (n.children.find? (fun e => !e.kind.isTrivia)).map E := by
    induction n.children with
    | nil => rfl
    | cons c cs ih =>
      by_cases hk : c.kind.isTrivia = true
      · by_cases ht : isTriviaTok c = true
        · simp [List.filter_cons, ht, List.find?_cons, hk, ih]
        · simp [List.filter_cons, ht, List.find?_cons, hk, ih]
      · have ht : isTriviaTok c = false := by simp [isTriviaTok, hk]
        simp [List.filter_cons, ht, List.find?_cons, hk]
  rw [this]
  generalize n.children.find? (fun e => !e.kind.isTrivia) = o
  cases o with
  | none => rfl
  | some c =>
    simp only [Option.map_some, isToken_E]
    cases c.isToken <;> rfl

theorem literal_kind_E (n : CNode) : Literal.kind (E n) = (Literal.kind n).map LiteralKind.mapE := by
  unfold Literal.kind Literal.token
  rw [firstNonTriviaToken_E]
  rcases firstNonTriviaToken n with t | _
  · simp only [PRes.map, kind_E]
    split <;> rfl
  · rfl

theorem scalar_kind_E (n : CNode) : ScalarType.kind (E n) = ScalarType.kind n := by
  unfold ScalarType.kind ScalarType.token
  rw [firstNonTriviaToken_E]
  rcases firstNonTriviaToken n with t | _
  · simp only [PRes.map, kind_E]
  · rfl

theorem file_to_string_E (n : CNode) : FilePath.to_string (E n) = FilePath.to_string n := by
  unfold FilePath.to_string FilePath.string FilePath.token
  rw [firstNonTriviaToken_E]
  generalize firstNonTriviaToken n = r
  cases r with
  | panic => rfl
  | ok t =>
    simp only [PRes.map, kind_E]
    by_cases hk : (t.kind == SyntaxKind.STRING) = true
    · simp only [hk, if_true, tokenText_E]
    · simp only [hk, if_false]; rfl

theorem gate_call_identifier_E (n : CNode) :
    GateCallExpr.identifier (E n) = (GateCallExpr.identifier n).map E := by
  unfold GateCallExpr.identifier
  simp only [children_supp_E, List.head?_map]
  rcases (support.children Expr.canCast n).head? with _ | e
  · rfl
  · simp only [Option.map_some, kind_E]; split <;> rfl

theorem call_identifier_E (n : CNode) : CallExpr.identifier (E n) = (CallExpr.identifier n).map E :=
  gate_call_identifier_E n

theorem gate_angle_params_E (n : CNode) : Gate.angle_params (E n) = (Gate.angle_params n).map E := by
  unfold Gate.angle_params Gate.angles_and_or_qubits
  simp only [children_supp_E, List.head?_map, head?_map_getElem, Option.isNone_map]
  split <;> rfl

theorem gate_qubit_params_E (n : CNode) : Gate.qubit_params (E n) = (Gate.qubit_params n).map E := by
  unfold Gate.qubit_params Gate.angles_and_or_qubits
  simp only [children_supp_E, List.head?_map, head?_map_getElem, Option.isNone_map]
  split <;> rfl

/-! ### results of the hand-written accessors are children (for `headOk` propagation) -/

theorem mem_of_head? {α} {l : List α} {a : α} (h : l.head? = some a) : a ∈ l := by
  cases l with
  | nil => cases h
  | cons b t => cases h; exact List.mem_cons_self

theorem children_supp_getElem_mem {can : SyntaxKind → Bool} {n c : CNode} {i : Nat}
    (h : (support.children can n)[i]? = some c) : c ∈ n.children :=
  children_supp_mem (List.mem_of_getElem? h)

theorem children_supp_head_mem {can : SyntaxKind → Bool} {n c : CNode}
    (h : (support.children can n).head? = some c) : c ∈ n.children :=
  children_supp_mem (mem_of_head? h)

end Oq3.Acc
