/-
C04, extended reference language, part 10: fuel, well-formedness (`WFS2` / `WFL2`, the Follow restrictions as
syntactic conditions), and the acceptance of statements, bodies, `switch` cases and statement lists by
MUTUAL INDUCTION over the extended language (`stmt_ok2` / `stmts_ok2`).
-/
import Oq3.Lemmas.LangEv2Ctl
set_option linter.unusedSimpArgs false
set_option linter.unusedVariables false

namespace Oq3.LangEv2
open Oq3.Gen Oq3.Parser Oq3.Grammar Oq3.SymExec Oq3.PrattEv Oq3.LangEv
open Oq3.Gen.Ops (Assoc)

/-! ### fuel -/

mutual
/-- fuel that `stmt` needs for the statement -/
def needS2 : Stmt2 → Nat
  | .decl _ _ w none => optFuel w + 8
  | .decl _ _ w (some e) => max (optFuel w) (fuelX e) + 8
  | .io _ _ w => optFuel w + 8
  | .qubit none => 8
  | .qubit (some w) => fuelX w + 8
  | .oldReg _ items => sumItems items + countItems items + 11
  | .letS e => fuelX e + 4
  | .alias e => fuelX e + 6
  | .assign ixs rhs => needX (.prim (lhsP ixs)) + fuelX rhs + 6
  | .exprS x => fuelX x + 3
  | .gate .nil qs => needQs qs + 8
  | .gate (.cons a as) qs => max (sumXs (.cons a as) + countXs (.cons a as) + 5) (needQs qs + 2) + 6
  | .modGate m ms args qs => max (needMods (m :: ms)) (max (needArgs args) (needQs qs + 2) + 1) + 7
  | .gphase x => fuelX x + 8
  | .modGphase m ms x => max (needMods (m :: ms)) (fuelX x + 2) + 8
  | .reset q => needQ q + 4
  | .barrier qs => needQs qs + 5
  | .delay d qs => max (fuelX d + 2) (needQs qs + 2) + 3
  | .brk => 8 | .cont => 8 | .endS => 8 | .pragma => 8 | .annot => 8 | .incl => 8 | .version => 8
  | .externS tys _ => tys.length + 11
  | .ifS c thn => max (fuelX c + 1) (needB thn) + 3
  | .ifElse c thn els => max (fuelX c + 1) (max (needB thn) (needB els)) + 3
  | .whileS c body => max (fuelX c + 1) (needB body) + 4
  | .forS _ w it body => max (max (optFuel w + 4) (needIter it)) (needB body) + 5
  | .switchS c cs => max (fuelX c + 1) (needCases (needC cs) cs + needC cs + 2) + 3
  | .block ss => needL2 ss + 7
  | .gateDef none nq body => max (nq + 5) (needL2 body + 3) + 3
  | .gateDef (some k) nq body => max (max (k + 5) (nq + 5)) (needL2 body + 3) + 3
  | .defS ps _ body => max (ps.length + 6) (needL2 body + 3) + 3
  | .cal body => needL2 body + 6
  | .ret none => 8
  | .ret (some x) => fuelX x + 9
def needB : Body → Nat
  | .blk ss => needL2 ss + 2
  | .one s => needS2 s + 1
/-- fuel for the blocks of the cases -/
def needC : Cases → Nat
  | .nil => 0
  | .dflt body => needL2 body
  | .cons _ body rest => max (needL2 body) (needC rest)
def needL2 : Stmts2 → Nat
  | .nil => 1
  | .cons s ss => max (needS2 s) (needL2 ss) + 1
end

/-! ### well-formedness -/

/-- does the list start with an expression statement whose first token is `-`? -/
def startsMinus2 : Stmts2 → Bool
  | .cons (.exprS x) _ => firstX x == .MINUS
  | _ => false

mutual
def WFS2 : Stmt2 → Prop
  | .decl _ ty w init => (w.isSome = true → ty.wide = true) ∧ WidthOK w ∧ (∀ e, init = some e → CanonX 1 e)
  | .io _ ty w => (w.isSome = true → ty.wide = true) ∧ WidthOK w
  | .qubit w => WidthOK w
  | .oldReg _ items => CanonItems items ∧ ItemsFirstOK items
  | .letS e => CanonX 1 e
  /- `let` as ALIAS_DECLARATION_STATEMENT only where `item` dispatches it: see `WFTop` -/
  | .alias _ => False
  /- F06: the right-hand side of an assignment is parsed at the binding power of `=` -/
  | .assign ixs rhs => CanonTarget ixs ∧ CanonX 12 rhs
  /- an expression statement does not start with a type keyword (`stmt` would parse a declaration) -/
  | .exprS x => CanonX 1 x ∧ exprStmtFirst2 (firstX x) = true
  | .gate args qs => CanonXs args ∧ CanonQs qs
  | .modGate m ms args qs => CanonMods (m :: ms) ∧ CanonXs args ∧ CanonQs qs
  | .gphase x => CanonX 1 x
  | .modGphase m ms x => CanonMods (m :: ms) ∧ CanonX 1 x
  | .reset q => CanonQ q
  | .barrier qs => CanonQs qs
  | .delay d qs => WidthOK (some d) ∧ CanonQs qs
  | .ifS c thn => CanonX 1 c ∧ WFB thn
  /- the `then` branch does not end with an `if` without `else` (it would take the `else`) -/
  | .ifElse c thn els => CanonX 1 c ∧ WFB thn ∧ WFB els ∧ endsIfB thn = false
  | .whileS c body => CanonX 1 c ∧ WFB body
  /- an expression as iterable needs a block as body (the token after the expression must end it) -/
  | .forS ty w it body => ((w.isSome = true → ty.wide = true) ∧ WidthOK w) ∧ CanonIter it ∧ iterBodyOK it body ∧ WFB body
  | .switchS c cs => CanonX 1 c ∧ CanonCases cs ∧ cs ≠ .nil ∧ WFC cs
  | .block ss => WFL2 true ss
  | .gateDef _ _ body => WFL2 true body
  | .defS _ _ body => WFL2 true body
  | .cal body => WFL2 true body
  | .ret e => ∀ x, e = some x → CanonX 1 x ∧ exprStmtFirst2 (firstX x) = true
  | _ => True
/-- a brace-less body is a statement that is not a bare block -/
def WFB : Body → Prop
  | .blk ss => WFL2 true ss
  | .one s => WFS2 s ∧ firstTokS2 s ≠ .L_CURLY
def WFC : Cases → Prop
  | .nil => True
  | .dflt body => WFL2 true body
  | .cons _ body rest => WFL2 true body ∧ WFC rest
/-- `curly`: the list is closed by `}` (inside a block), otherwise by the end of the input.
F09e: a statement that ends with an assignment is not followed by a statement starting with `-`;
F09d: a bare block is not the last statement of a block -/
def WFL2 : Bool → Stmts2 → Prop
  | _, .nil => True
  | curly, .cons s ss =>
    WFS2 s ∧ WFL2 curly ss ∧ (endsAssign s = true → startsMinus2 ss = false) ∧
      (endsBlock s = true → curly = true → ss ≠ .nil)
end

/-! ### first tokens, what follows a statement -/

/-- the tokens with which a statement of `Stmt2` can start -/
def stmtFirst (k : SyntaxKind) : Bool :=
  xFirst k || k == .CONST_KW || k == .INPUT_KW || k == .OUTPUT_KW || k == .QUBIT_KW || k == .CREG_KW || k == .QREG_KW ||
  k == .LET_KW || k == .INV_KW || k == .POW_KW || k == .CTRL_KW || k == .NEGCTRL_KW || k == .GPHASE_KW || k == .RESET_KW ||
  k == .BARRIER_KW || k == .DELAY_KW || k == .BREAK_KW || k == .CONTINUE_KW || k == .END_KW || k == .PRAGMA || k == .ANNOTATION ||
  k == .INCLUDE_KW || k == .O_P_E_N_Q_A_S_M_KW || k == .EXTERN_KW || k == .IF_KW || k == .WHILE_KW || k == .FOR_KW ||
  k == .SWITCH_KW || k == .L_CURLY || k == .GATE_KW || k == .DEF_KW || k == .CAL_KW || k == .RETURN_KW

theorem firstTokS2_stmtFirst (st : Stmt2) : stmtFirst (firstTokS2 st) = true := by
  cases st with
  | decl cst ty w init => cases cst <;> cases ty <;> rfl
  | io out ty w => cases out <;> rfl
  | oldReg c items => cases c <;> rfl
  | exprS x =>
    simp only [firstTokS2, stmtFirst, firstX_xFirst x, Bool.true_or]
  | modGate m ms args qs => rcases firstMod_cases m with h | h | h | h <;> simp only [firstTokS2, h] <;> rfl
  | modGphase m ms x => rcases firstMod_cases m with h | h | h | h <;> simp only [firstTokS2, h] <;> rfl
  | _ => rfl

theorem stmtFirst_props (k : SyntaxKind) : stmtFirst k = true →
    k ≠ .EOF ∧ k ≠ .R_CURLY ∧ k ≠ .ELSE_KW ∧ k ≠ .SEMICOLON ∧ k ≠ .CASE_KW ∧ k ≠ .DEFAULT_KW ∧
      (startsOp k = true → k = .BANG ∨ k = .MINUS) := by
  cases k <;> decide

/-- the token that closes a statement list: `}` inside a block, the end of the input at the top level -/
def closerOf (curly : Bool) (k : SyntaxKind) : Prop := if curly = true then k = .R_CURLY else k = .EOF

theorem closerOf_closer {curly : Bool} {k : SyntaxKind} (h : closerOf curly k) : closer k := by
  unfold closerOf at h
  cases curly
  · exact Or.inr (by simpa using h)
  · exact Or.inl (by simpa using h)

theorem toksX_bang : ∀ (x : X), firstX x = .BANG → ∃ j k j' ts, toksX x = (.BANG, j) :: (k, j') :: ts ∧ xFirst k = true
  | .prim p, h => absurd h (firstP_notPre p).2.1
  | .pre o e, h => by
    obtain ⟨j', ts, ht⟩ := toksX_first e
    simp only [firstX] at h
    exact ⟨false, firstX e, j', ts, by simp [toksX, h, ht], firstX_xFirst e⟩
  | .bin o l r, h => by
    obtain ⟨j, k, j', ts, ht, hk⟩ := toksX_bang l h
    exact ⟨j, k, j', ts ++ (o.toks ++ toksX r), by simp [toksX, ht], hk⟩

theorem startsOp_exprS (st : Stmt2) (h : startsOp (firstTokS2 st) = true) : ∃ x, st = .exprS x := by
  cases st with
  | exprS x => exact ⟨x, rfl⟩
  | decl cst ty w init =>
    cases cst <;> cases ty <;> simp only [firstTokS2, Ty.kind, Bool.false_eq_true, if_false, if_true] at h <;> exact absurd h (by decide)
  | io out ty w => cases out <;> simp only [firstTokS2, Bool.false_eq_true, if_false, if_true] at h <;> exact absurd h (by decide)
  | oldReg c items => cases c <;> simp only [firstTokS2, Bool.false_eq_true, if_false, if_true] at h <;> exact absurd h (by decide)
  | modGate m ms args qs => rcases firstMod_cases m with h' | h' | h' | h' <;> simp only [firstTokS2, h'] at h <;> exact absurd h (by decide)
  | modGphase m ms x => rcases firstMod_cases m with h' | h' | h' | h' <;> simp only [firstTokS2, h'] at h <;> exact absurd h (by decide)
  | _ => simp only [firstTokS2] at h; exact absurd h (by decide)

/-- the token at the start of a statement list (or the closing token after it) does not continue a
preceding assignment, unless the list starts with `-` -/
theorem stopsAt_next2 (ss : Stmts2) (s : P) (q : Nat) (htk : Toks s q (toksL2 ss))
    (hcl : closer (s.kindAt (q + (toksL2 ss).length))) (hm : startsMinus2 ss = false) : StopsAt s q 1 := by
  unfold StopsAt
  cases ss with
  | nil =>
    simp only [toksL2, List.length_nil, Nat.add_zero] at hcl
    rw [opF_nonop _ _ _ (by rcases hcl with h | h <;> (simp only [P.kindAt] at h; rw [h]; decide))]
    decide
  | cons st ss' =>
    obtain ⟨j, ts, hts⟩ := toksS2_first st
    simp only [toksL2, Toks_append] at htk
    obtain ⟨hst, -⟩ := htk
    have h0 : s.kindAt q = firstTokS2 st := by rw [hts] at hst; exact hst.1
    have hop := (stmtFirst_props _ (firstTokS2_stmtFirst st)).2.2.2.2.2.2
    cases hso : startsOp (firstTokS2 st) with
    | false =>
      rw [opF_nonop _ _ _ (by simp only [P.kindAt] at h0; rw [h0]; exact hso)]
      decide
    | true =>
      obtain ⟨x, rfl⟩ := startsOp_exprS st hso
      rcases hop hso with hb | hmn
      · obtain ⟨j1, k, j', ts', ht, hk⟩ := toksX_bang x hb
        simp only [toksS2, Toks_append, ht, Toks] at hst
        obtain ⟨⟨-, -, h1, -⟩, -⟩ := hst
        rw [opF_bang s q (by rw [h0]; exact hb) (by rw [h1]; exact (xFirst_ne hk).1.1)]
        decide
      · simp only [startsMinus2, firstTokS2] at hm hmn
        rw [hmn] at hm
        cases hm


/-- the token at position `q`: the first token of the list `ss` or, if it is empty, its closer -/
theorem next_tok (ss : Stmts2) (curly : Bool) (s : P) (q : Nat) (htk : Toks s q (toksL2 ss))
    (hcl : closerOf curly (s.kindAt (q + (toksL2 ss).length))) :
    (ss = .nil ∧ closerOf curly (s.kindAt q)) ∨ (ss ≠ .nil ∧ stmtFirst (s.kindAt q) = true) := by
  cases ss with
  | nil => left; simp only [toksL2, List.length_nil, Nat.add_zero] at hcl; exact ⟨rfl, hcl⟩
  | cons st ss' =>
    right
    obtain ⟨j, ts, hts⟩ := toksS2_first st
    simp only [toksL2, Toks_append, hts, Toks] at htk
    rw [htk.1.1]
    exact ⟨(by intro h; cases h), firstTokS2_stmtFirst st⟩

theorem followS2_next (st : Stmt2) (ss : Stmts2) (curly : Bool) (s : P) (q : Nat) (htk : Toks s q (toksL2 ss))
    (hcl : closerOf curly (s.kindAt (q + (toksL2 ss).length)))
    (hm : endsAssign st = true → startsMinus2 ss = false) (hb : endsBlock st = true → curly = true → ss ≠ .nil) :
    FollowS2 st s q := by
  refine ⟨fun h => stopsAt_next2 ss s q htk (closerOf_closer hcl) (hm h), fun _ => ?_, fun h => ?_, fun _ => ?_⟩
  · rcases next_tok ss curly s q htk hcl with ⟨-, h⟩ | ⟨-, h⟩
    · have := closerOf_closer h; rcases this with h | h <;> rw [h] <;> decide
    · exact (stmtFirst_props _ h).2.2.1
  · rcases next_tok ss curly s q htk hcl with ⟨h1, h2⟩ | ⟨-, h2⟩
    · cases curly with
      | false => unfold closerOf at h2; simp only [Bool.false_eq_true, if_false] at h2; rw [h2]; decide
      | true => exact absurd h1 (hb h rfl)
    · exact (stmtFirst_props _ h2).2.1
  · rcases next_tok ss curly s q htk hcl with ⟨-, h⟩ | ⟨-, h⟩
    · have := closerOf_closer h; rcases this with h | h <;> rw [h] <;> decide
    · exact (stmtFirst_props _ h).2.2.2.1

/-- the statement loop at the closing token -/
theorem ebs_nil2 (F : Nat) (s : P) (hk : closer (s.kindAt s.pos)) : Acc (exprBlockStatements (F + 1)) s 0 [] :=
  ebs_nil F s hk

/-! ### the induction over the language -/

theorem StmtOK2.mono {st : Stmt2} {n n' : Nat} (h : StmtOK2 st n) (hn : n ≤ n') : StmtOK2 st n' :=
  fun F s hF => h F s (Nat.le_trans hn hF)
theorem StmtsOK2.mono {ss : Stmts2} {n n' : Nat} (h : StmtsOK2 ss n) (hn : n ≤ n') : StmtsOK2 ss n' :=
  fun F s hF => h F s (Nat.le_trans hn hF)
theorem BodyOK.mono {b : Body} {n n' : Nat} (h : BodyOK b n) (hn : n ≤ n') : BodyOK b n' :=
  fun F s hF => h F s (Nat.le_trans hn hF)
theorem IfAcc.mono {st : Stmt2} {n n' : Nat} (h : IfAcc st n) (hn : n ≤ n') : IfAcc st n' :=
  fun F s hF => h F s (Nat.le_trans hn hF)

theorem firstTokB_blk (ss : Stmts2) : firstTokB (.blk ss) ≠ .IF_KW := by simp [firstTokB]

/-- `if … else …` at the level of `if_stmt`, from the acceptance of its parts -/
theorem ifElse_any (c : X) (thn els : Body) (hc : CanonX 1 c) (hif : endsIfB thn = false)
    (hb1 : BodyOK thn (needB thn)) (hb2 : BodyOK els (needB els))
    (hif2 : ∀ s', els = .one s' → firstTokS2 s' = .IF_KW → IfAcc s' (needS2 s')) :
    IfAcc (.ifElse c thn els) (max (fuelX c + 1) (max (needB thn) (needB els)) + 1) := by
  cases els with
  | blk ss => exact ifElse_acc c thn (.blk ss) _ _ hb1 hb2 hc hif (firstTokB_blk ss)
  | one s' =>
    by_cases hf : firstTokS2 s' = .IF_KW
    · exact (ifElseIf_acc c thn s' _ _ hb1 (hif2 s' rfl hf) hc hif hf).mono (by simp only [needB]; omega)
    · exact ifElse_acc c thn (.one s') _ _ hb1 hb2 hc hif hf

theorem closerOf_true {k : SyntaxKind} (h : k = .R_CURLY) : closerOf true k := by unfold closerOf; simpa using h

mutual
/-- **every well-formed statement is accepted by `stmt`**, with exactly its events -/
theorem stmt_ok2 : ∀ (st : Stmt2), WFS2 st → StmtOK2 st (needS2 st)
  | .decl false ty w none, hwf => fun F s hF hr htk _ =>
    stmt_decl_none2 ty w F s hr (by simp only [needS2] at hF; omega) hwf.1 hwf.2.1 htk
  | .decl true ty w none, hwf => fun F s hF hr htk _ =>
    stmt_const_none ty w F s hr (by simp only [needS2] at hF; omega) hwf.1 hwf.2.1 htk
  | .decl false ty w (some e), hwf => fun F s hF hr htk _ =>
    stmt_decl_some2 ty w e F s hr (by simp only [needS2] at hF; omega) (hwf.2.2 e rfl) hwf.1 hwf.2.1 htk
  | .decl true ty w (some e), hwf => fun F s hF hr htk _ =>
    stmt_const_some ty w e F s hr (by simp only [needS2] at hF; omega) (hwf.2.2 e rfl) hwf.1 hwf.2.1 htk
  | .io out ty w, hwf => fun F s hF hr htk _ => stmt_io out ty w F s hr (by simp only [needS2] at hF; omega) hwf.1 hwf.2 htk
  | .qubit none, _ => fun F s hF hr htk _ => stmt_qubit_none F s hr (by simp only [needS2] at hF; omega) htk
  | .qubit (some w), hwf => fun F s hF hr htk _ => stmt_qubit_some w F s hr (by simp only [needS2] at hF; omega) htk hwf
  | .oldReg c items, hwf => fun F s hF hr htk _ =>
    stmt_oldReg c items F s hr (by simp only [needS2] at hF; omega) htk hwf.1 hwf.2
  | .letS e, hwf => fun F s hF hr htk _ => stmt_letS e F s hr (by simp only [needS2] at hF; omega) htk hwf
  | .alias _, hwf => absurd hwf (by simp [WFS2])
  | .assign ixs rhs, hwf => fun F s hF hr htk hfol =>
    stmt_assign2 ixs rhs F s hr (by simp only [needS2] at hF; omega) htk hwf.1 hwf.2 (hfol.assign rfl)
  | .exprS x, hwf => fun F s hF hr htk _ => stmt_exprS2 x F s hr (by simp only [needS2] at hF; omega) htk hwf.1 hwf.2
  | .gate .nil qs, hwf => fun F s hF hr htk _ => stmt_gate_nil2 qs F s hr (by simp only [needS2] at hF; omega) htk hwf.2
  | .gate (.cons a as) qs, hwf => fun F s hF hr htk _ =>
    stmt_gate_cons2 a as qs F s hr (by simp only [needS2] at hF; omega) htk hwf.1 hwf.2
  | .modGate m ms args qs, hwf => fun F s hF hr htk _ =>
    stmt_modGate m ms args qs F s hr (by simp only [needS2] at hF; omega) htk hwf.1 hwf.2.1 hwf.2.2
  | .gphase x, hwf => fun F s hF hr htk _ => stmt_gphase x F s hr (by simp only [needS2] at hF; omega) htk hwf
  | .modGphase m ms x, hwf => fun F s hF hr htk _ =>
    stmt_modGphase m ms x F s hr (by simp only [needS2] at hF; omega) htk hwf.1 hwf.2
  | .reset q, hwf => fun F s hF hr htk _ => stmt_reset2 q F s hr (by simp only [needS2] at hF; omega) htk hwf
  | .barrier qs, hwf => fun F s hF hr htk _ => stmt_barrier2 qs F s hr (by simp only [needS2] at hF; omega) htk hwf
  | .delay d qs, hwf => fun F s hF hr htk _ => stmt_delay d qs F s hr (by simp only [needS2] at hF; omega) htk hwf.1 hwf.2
  | .brk, _ => fun F s hF hr htk _ => stmt_brk2 F s hr (by simp only [needS2] at hF; omega) htk
  | .cont, _ => fun F s hF hr htk _ => stmt_cont2 F s hr (by simp only [needS2] at hF; omega) htk
  | .endS, _ => fun F s hF hr htk _ => stmt_endS2 F s hr (by simp only [needS2] at hF; omega) htk
  | .pragma, _ => fun F s hF hr htk _ => stmt_pragma F s hr (by simp only [needS2] at hF; omega) htk
  | .annot, _ => fun F s hF hr htk _ => stmt_annot F s hr (by simp only [needS2] at hF; omega) htk
  | .incl, _ => fun F s hF hr htk _ => stmt_incl F s hr (by simp only [needS2] at hF; omega) htk
  | .version, _ => fun F s hF hr htk _ => stmt_version F s hr (by simp only [needS2] at hF; omega) htk
  | .externS tys ret, _ => fun F s hF hr htk _ => stmt_externS tys ret F s hr (by simp only [needS2] at hF; omega) htk
  | .ifS c thn, hwf =>
    (stmt_of_ifAcc _ _ (ifS_acc c thn (needB thn) (body_ok thn hwf.2) hwf.1) rfl).mono (by simp only [needS2]; omega)
  | .ifElse c thn (.blk ss), hwf =>
    (stmt_of_ifAcc _ _ (ifElse_any c thn (.blk ss) hwf.1 hwf.2.2.2 (body_ok thn hwf.2.1) (body_ok (.blk ss) hwf.2.2.1)
      (fun s' h _ => by cases h)) rfl).mono (by simp only [needS2]; omega)
  | .ifElse c thn (.one s'), hwf =>
    (stmt_of_ifAcc _ _ (ifElse_any c thn (.one s') hwf.1 hwf.2.2.2 (body_ok thn hwf.2.1) (body_ok (.one s') hwf.2.2.1)
      (fun s'' h hf => by cases h; exact if_ok s' hwf.2.2.1.1 hf)) rfl).mono (by simp only [needS2]; omega)
  | .whileS c body, hwf => (stmt_whileS2 c body (needB body) (body_ok body hwf.2) hwf.1).mono (by simp only [needS2]; omega)
  | .forS ty w it body, hwf =>
    (stmt_forS2 ty w it body (needB body) (body_ok body hwf.2.2.2) hwf.1.1 hwf.1.2 hwf.2.1 hwf.2.2.1).mono (by simp only [needS2]; omega)
  | .switchS c cs, hwf =>
    (stmt_switchS c cs (needC cs) (cases_ok cs hwf.2.2.2 (needC cs) (Nat.le_refl _)) hwf.1 hwf.2.1 hwf.2.2.1).mono
      (by simp only [needS2]; omega)
  | .block ss, hwf =>
    (stmt_block ss (needL2 ss) (fun F s hF hr htk hcl => stmts_ok2 true ss hwf F s hF hr htk (closerOf_true hcl))).mono
      (by simp only [needS2]; omega)
  | .gateDef none nq body, hwf => fun F s hF hr htk _ =>
    stmt_gateDef_none2 nq body (needL2 body) F (fun F s hF hr htk hcl => stmts_ok2 true body hwf F s hF hr htk (closerOf_true hcl))
      s hr (by simp only [needS2] at hF; omega) htk
  | .gateDef (some k) nq body, hwf => fun F s hF hr htk _ =>
    stmt_gateDef_some2 k nq body (needL2 body) F (fun F s hF hr htk hcl => stmts_ok2 true body hwf F s hF hr htk (closerOf_true hcl))
      s hr (by simp only [needS2] at hF; omega) htk
  | .defS ps ret body, hwf => fun F s hF hr htk _ =>
    stmt_defS2 ps ret body (needL2 body) F (fun F s hF hr htk hcl => stmts_ok2 true body hwf F s hF hr htk (closerOf_true hcl))
      s hr (by simp only [needS2] at hF; omega) htk
  | .cal body, hwf => fun F s hF hr htk _ =>
    stmt_cal body (needL2 body) F (fun F s hF hr htk hcl => stmts_ok2 true body hwf F s hF hr htk (closerOf_true hcl))
      s hr (by simp only [needS2] at hF; omega) htk
  | .ret none, _ => fun F s hF hr htk _ => stmt_ret_none2 F s hr (by simp only [needS2] at hF; omega) htk
  | .ret (some x), hwf => fun F s hF hr htk _ =>
    stmt_ret_some2 x F s hr (by simp only [needS2] at hF; omega) htk (hwf x rfl).1 (hwf x rfl).2
/-- the `if` statements at the level of `if_stmt` (for `else if` chains) -/
theorem if_ok : ∀ (st : Stmt2), WFS2 st → firstTokS2 st = .IF_KW → IfAcc st (needS2 st)
  | .ifS c thn, hwf, _ => (ifS_acc c thn (needB thn) (body_ok thn hwf.2) hwf.1).mono (by simp only [needS2]; omega)
  | .ifElse c thn (.blk ss), hwf, _ =>
    (ifElse_any c thn (.blk ss) hwf.1 hwf.2.2.2 (body_ok thn hwf.2.1) (body_ok (.blk ss) hwf.2.2.1)
      (fun s' h _ => by cases h)).mono (by simp only [needS2]; omega)
  | .ifElse c thn (.one s'), hwf, _ =>
    (ifElse_any c thn (.one s') hwf.1 hwf.2.2.2 (body_ok thn hwf.2.1) (body_ok (.one s') hwf.2.2.1)
      (fun s'' h hf => by cases h; exact if_ok s' hwf.2.2.1.1 hf)).mono (by simp only [needS2]; omega)
  | .decl cst ty w init, _, h => by cases cst <;> cases ty <;> simp [firstTokS2, Ty.kind] at h
  | .io out _ _, _, h => by cases out <;> simp [firstTokS2] at h
  | .oldReg c _, _, h => by cases c <;> simp [firstTokS2] at h
  | .exprS x, _, h => by
    have := firstX_xFirst x; simp only [firstTokS2] at h; rw [h] at this; cases this
  | .modGate m _ _ _, _, h => by rcases firstMod_cases m with h' | h' | h' | h' <;> simp [firstTokS2, h'] at h
  | .modGphase m _ _, _, h => by rcases firstMod_cases m with h' | h' | h' | h' <;> simp [firstTokS2, h'] at h
  | .qubit _, _, h | .letS _, _, h | .alias _, _, h | .assign _ _, _, h | .gate _ _, _, h | .gphase _, _, h | .reset _, _, h
  | .barrier _, _, h | .delay _ _, _, h | .brk, _, h | .cont, _, h | .endS, _, h | .pragma, _, h | .annot, _, h | .incl, _, h
  | .version, _, h | .externS _ _, _, h | .whileS _ _, _, h | .forS _ _ _ _, _, h | .switchS _ _, _, h | .block _, _, h
  | .gateDef _ _ _, _, h | .defS _ _ _, _, h | .cal _, _, h | .ret _, _, h => by simp [firstTokS2] at h
theorem body_ok : ∀ (b : Body), WFB b → BodyOK b (needB b)
  | .blk ss, hwf =>
    block_acc2 ss (needL2 ss) (fun F s hF hr htk hcl => stmts_ok2 true ss hwf F s hF hr htk (closerOf_true hcl))
  | .one st, hwf => one_acc st (needS2 st) (stmt_ok2 st hwf.1) hwf.2
theorem cases_ok : ∀ (cs : Cases), WFC cs → ∀ n, needC cs ≤ n → CasesOK cs n
  | .nil, _, _, _ => trivial
  | .dflt body, hwf, n, hn =>
    StmtsOK2.mono (fun F s hF hr htk hcl => stmts_ok2 true body hwf F s hF hr htk (closerOf_true hcl)) (by simp only [needC] at hn; exact hn)
  | .cons _ body rest, hwf, n, hn =>
    ⟨StmtsOK2.mono (fun F s hF hr htk hcl => stmts_ok2 true body hwf.1 F s hF hr htk (closerOf_true hcl))
        (by simp only [needC] at hn; omega),
      cases_ok rest hwf.2 n (by simp only [needC] at hn; omega)⟩
/-- **every well-formed statement list is accepted by the statement loop** -/
theorem stmts_ok2 : ∀ (curly : Bool) (ss : Stmts2), WFL2 curly ss → ∀ (F : Nat) (s : P), needL2 ss ≤ F → RdyL 8 s →
    Toks s s.pos (toksL2 ss) → closerOf curly (s.kindAt (s.pos + (toksL2 ss).length)) →
    Acc (exprBlockStatements F) s (toksL2 ss).length (evsL2 ss)
  | curly, .nil, _, F, s, hF, hr, htk, hcl => by
    obtain ⟨g, rfl⟩ : ∃ g, F = g + 1 := ⟨F - 1, by simp only [needL2] at hF; omega⟩
    exact ebs_nil g s (closerOf_closer hcl)
  | curly, .cons st ss, hwf, F, s, hF, hr, htk, hcl => by
    obtain ⟨g, rfl⟩ : ∃ g, F = g + 1 := ⟨F - 1, by simp only [needL2] at hF; omega⟩
    simp only [needL2] at hF
    simp only [toksL2, Toks_append, List.length_append] at htk hcl ⊢
    obtain ⟨j, ts, hts⟩ := toksS2_first st
    have h0 : s.kindAt s.pos = firstTokS2 st := by have := htk.1; rw [hts] at this; exact this.1
    obtain ⟨hne1, hne2, -⟩ := stmtFirst_props _ (firstTokS2_stmtFirst st)
    refine ebs_cons g s _ _ _ _ (by rw [h0]; exact hne1) (by rw [h0]; exact hne2)
      (stmt_ok2 st hwf.1 g s (by omega) hr htk.1
        (followS2_next st ss curly s _ htk.2 (by rw [Nat.add_assoc]; exact hcl) hwf.2.2.1 hwf.2.2.2))
      (fun st' sb' hle => stmts_ok2 curly ss hwf.2.1 g _ (by omega)
        (RdyL_ov 8 s _ _ _ _ _ _ hr.hook (by have := hr.steps; omega) (fun p hp => Nat.lt_add_right _ (hr.prot p hp)) hr.lim)
        ((Toks_ov s _ _ _ _ _ _ _ _).2 htk.2)
        (by show closerOf curly (s.kindAt (s.pos + _ + _)); rw [Nat.add_assoc]; exact hcl))
end

end Oq3.LangEv2
