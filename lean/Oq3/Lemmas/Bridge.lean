/-
Bridge between the lexer side (`Oq3.Lexed`: `LexedStr`, `to_input`) and the builder side
(`Oq3.Builder`: raw token table, `intersperse_trivia`), for the end-to-end lossless theorem
(`Props/C02Full.lean`).

* `rawToksOf l` — the token table of a `LexedStr` as the builder sees it (kind and text of every
  token, no EOF sentinel), through the accessors `kind(i)`, `text(i)`.
* `toInput_exact` — the exact value of `to_input`: kinds = the non-trivia kinds, joint bits =
  `jointSpec` (bit `i` is set iff the raw token right after the `i`-th non-trivia token is not
  trivia, or the token is a `FLOAT_NUMBER` whose text does not end with `.`).
* `joint_exact` — hence a joint bit on a non-float token means "the next raw token is non-trivia".
Core only.
-/
import Oq3.Lemmas.Lexed
import Oq3.Lemmas.BuilderFit

namespace Oq3.Bridge
open Oq3.Gen Oq3.Lexer Oq3.Lexed Oq3.Lemmas.Lexer Oq3.Lemmas.Lexed Oq3.Builder

/-- raw token table of a `LexedStr` (without the EOF sentinel), through `kind(i)` / `text(i)` -/
def rawToksOf (l : LexedStr) : List RawTok :=
  (List.range l.len).filterMap fun i =>
    match l.kindAt i, l.textAt i with
    | some k, some t => some ⟨k, t⟩
    | _, _ => none

/-- the raw token of a lexer token -/
def rawOf (t : Token) : RawTok := ⟨synKind t, t.text⟩

theorem rawToksOf_lexedOf (uc : UC) (s : List Char) :
    rawToksOf (lexedOf uc s) = (tokenize uc s).map rawOf := by
  have h := table_lexedOf uc s
  unfold table at h
  unfold rawToksOf
  have : ∀ (l : List (Option SyntaxKind × Option (List Char))) (ts : List Token),
      l = ts.map (fun t => (some (synKind t), some t.text)) →
      l.filterMap (fun e => match e.1, e.2 with
        | some k, some t => some (RawTok.mk k t)
        | _, _ => none) = ts.map rawOf := by
    intro l ts hl
    subst hl
    induction ts with
    | nil => rfl
    | cons t ts ih => simp [rawOf, ih]
  have h2 := this _ _ h
  rw [← h2, List.filterMap_map]
  rfl

/-! ### (d) the raw tokens spell the input -/

theorem rawText_rawToksOf (uc : UC) (s : List Char) : rawText (rawToksOf (lexedOf uc s)) = s := by
  rw [rawToksOf_lexedOf]
  have := tokenize_texts uc s
  simp only [rawText, List.map_map]
  exact this

/-! ### (c) no raw token has kind `EOF` -/

theorem table_kinds_ne_eof :
    (∀ p ∈ SyntaxKind.keywordTable, p.2 ≠ SyntaxKind.EOF) ∧
    (∀ p ∈ SyntaxKind.scalarTypeTable, p.2 ≠ SyntaxKind.EOF) := by
  constructor <;> decide

theorem fromKeyword_ne_eof {s : List Char} {k : SyntaxKind} (h : SyntaxKind.fromKeyword s = some k) :
    k ≠ .EOF := by
  simp only [SyntaxKind.fromKeyword, Option.map_eq_some_iff] at h
  obtain ⟨p, hp, rfl⟩ := h
  exact table_kinds_ne_eof.1 p (List.mem_of_find?_eq_some hp)

theorem fromScalarType_ne_eof {s : List Char} {k : SyntaxKind}
    (h : SyntaxKind.fromScalarType s = some k) : k ≠ .EOF := by
  simp only [SyntaxKind.fromScalarType, Option.map_eq_some_iff] at h
  obtain ⟨p, hp, rfl⟩ := h
  exact table_kinds_ne_eof.2 p (List.mem_of_find?_eq_some hp)

/-- `inner_extend_token` yields `EOF` only for the lexer's `Eof` token -/
theorem innerExtendToken_ne_eof (k : TokenKind) (txt : List Char) (hk : k ≠ .eof) :
    (innerExtendToken k txt).2.1 ≠ .EOF := by
  cases k with
  | eof => exact absurd rfl hk
  | ident =>
    simp only [innerExtendToken]
    split
    · simp
    · cases h1 : SyntaxKind.fromKeyword txt with
      | some k => simpa using fromKeyword_ne_eof h1
      | none =>
        cases h2 : SyntaxKind.fromScalarType txt with
        | some k => simpa using fromScalarType_ne_eof h2
        | none => simp
  | hardwareIdent =>
    simp only [innerExtendToken]
    cases h1 : SyntaxKind.fromKeyword txt with
    | some k => simpa using fromKeyword_ne_eof h1
    | none => simp
  | literal l n => cases l <;> simp [innerExtendToken, extendLiteralFunc]
  | _ => simp [innerExtendToken]

theorem rawToks_kind_ne_eof (uc : UC) (s : List Char) :
    ∀ t ∈ rawToksOf (lexedOf uc s), t.kind ≠ .EOF := by
  rw [rawToksOf_lexedOf]
  intro t ht
  obtain ⟨tok, htok, rfl⟩ := List.mem_map.mp ht
  exact innerExtendToken_ne_eof tok.kind tok.text
    (forall_tokenize uc (fun t => t.kind ≠ .eof) (tokenAt_kind_ne_eof uc) s tok htok)


/-! ### the exact value of `to_input` -/

/-- the joint bits `to_input` computes, one per non-trivia token: the next raw token is
non-trivia, or the token is a float with a fractional part -/
def jointSpec : List RawTok → List Bool
  | [] => []
  | t :: rest =>
    if t.kind.isTrivia then jointSpec rest
    else (headNonTrivia rest || (t.kind == .FLOAT_NUMBER && !endsWithDot t.text)) :: jointSpec rest

/-- `was_joint()` on the bit list -/
def setLast (l : List Bool) : List Bool := l.set (l.length - 1) true

/-- one iteration of `to_input`, as a total function of the raw token -/
def pureStep (t : RawTok) (st : ToInputState) : ToInputState :=
  if t.kind.isTrivia then { st with wasJoint := false }
  else
    let res0 : Input := if st.wasJoint then { st.res with joint := setLast st.res.joint } else st.res
    let res1 := res0.push t.kind
    let res2 : Input :=
      if t.kind == .FLOAT_NUMBER && !endsWithDot t.text then { res1 with joint := setLast res1.joint }
      else res1
    ⟨res2, true⟩

theorem wasJoint_eq (inp : Input) (hlen : inp.joint.length = inp.kind.length) (hne : inp.kind ≠ []) :
    inp.wasJoint = some { inp with joint := setLast inp.joint } := by
  have hpos : 0 < inp.kind.length := List.length_pos_iff.mpr hne
  have hl : inp.len = inp.kind.length := rfl
  unfold Input.wasJoint
  rw [if_neg (by omega), if_pos (by omega)]
  simp [setLast, hl, hlen]

theorem setLast_length (l : List Bool) : (setLast l).length = l.length := by simp [setLast]

theorem setLast_append_singleton (l : List Bool) (b : Bool) : setLast (l ++ [b]) = l ++ [true] := by
  simp [setLast]

/-- the model's `to_input` iteration is `pureStep` (and never panics) under the loop invariant -/
theorem toInputStep_eq (l : LexedStr) (i : Nat) (st : ToInputState) (hinv : InputInv st)
    (k : SyntaxKind) (t : List Char) (hk : l.kindAt i = some k) (ht : l.textAt i = some t) :
    toInputStep l i st = some (pureStep ⟨k, t⟩ st) ∧ InputInv (pureStep ⟨k, t⟩ st) := by
  obtain ⟨hlen, hwj⟩ := hinv
  simp only [toInputStep, hk, ht, pureStep]
  cases htr : k.isTrivia with
  | true => simp only [if_true]; exact ⟨by first | rfl | trivial, hlen, by simp⟩
  | false =>
    simp only [Bool.false_eq_true, if_false]
    -- pending `was_joint` of the previous token
    have h0 : ∃ res0 : Input,
        (if st.wasJoint = true then st.res.wasJoint else some st.res) = some res0 ∧
        res0 = (if st.wasJoint = true then { st.res with joint := setLast st.res.joint } else st.res) ∧
        res0.joint.length = res0.kind.length := by
      cases hw : st.wasJoint with
      | false => exact ⟨st.res, by simp, by simp, hlen⟩
      | true =>
        refine ⟨{ st.res with joint := setLast st.res.joint }, ?_, by simp, ?_⟩
        · simp only [if_true]; exact wasJoint_eq st.res hlen (hwj hw)
        · simp [setLast_length, hlen]
    obtain ⟨res0, h01, h02, h03⟩ := h0
    rw [h01, ← h02]
    have hp1 : (res0.push k).joint.length = (res0.push k).kind.length := by simp [Input.push, h03]
    have hp2 : (res0.push k).kind ≠ [] := by simp [Input.push]
    simp only []
    cases hfl : (k == SyntaxKind.FLOAT_NUMBER) with
    | false => simp only [Bool.false_and, Bool.false_eq_true, if_false]; exact ⟨by first | rfl | trivial, hp1, fun _ => hp2⟩
    | true =>
      simp only [Bool.true_and, if_true]
      cases hd : endsWithDot t with
      | true => simp only [Bool.not_true, Bool.false_eq_true, if_false]; exact ⟨by first | rfl | trivial, hp1, fun _ => hp2⟩
      | false =>
        simp only [Bool.not_false, if_true, wasJoint_eq _ hp1 hp2]
        exact ⟨by first | rfl | trivial, by simp [setLast_length, hp1], fun _ => hp2⟩

/-- folding `pureStep` over the remaining raw tokens -/
theorem fold_pureStep (suf : List RawTok) (st : ToInputState) :
    (suf.foldl (fun st t => pureStep t st) st).res =
      ⟨st.res.kind ++ ntKinds suf,
       (if st.wasJoint && headNonTrivia suf then setLast st.res.joint else st.res.joint) ++
         jointSpec suf⟩ := by
  induction suf generalizing st with
  | nil => simp [ntKinds, jointSpec, headNonTrivia]
  | cons t rest ih =>
    simp only [List.foldl_cons]
    rw [ih]
    cases htr : t.kind.isTrivia with
    | true =>
      simp [pureStep, htr, ntKinds, jointSpec, headNonTrivia]
    | false =>
      have hnt : ntKinds (t :: rest) = t.kind :: ntKinds rest := by simp [ntKinds, htr]
      have hhd : headNonTrivia (t :: rest) = true := by simp [headNonTrivia, htr]
      simp only [pureStep, htr, Bool.false_eq_true, if_false, hnt, jointSpec, hhd, Bool.and_true,
        Bool.true_and]
      cases hw : st.wasJoint <;> cases hh : headNonTrivia rest <;>
        cases hf : (t.kind == SyntaxKind.FLOAT_NUMBER && !endsWithDot t.text) <;>
        simp [Input.push, setLast_append_singleton]

/-- the loop of `to_input` over a range of tokens whose accessors are known -/
theorem toInputLoop_eq (l : LexedStr) : ∀ (ts : List RawTok) (i : Nat) (st : ToInputState),
    InputInv st →
    (∀ j (hj : j < ts.length), l.kindAt (i + j) = some ts[j].kind ∧ l.textAt (i + j) = some ts[j].text) →
    toInputLoop l ts.length i st = some (ts.foldl (fun st t => pureStep t st) st) := by
  intro ts
  induction ts with
  | nil => intro i st _ _; rfl
  | cons t ts ih =>
    intro i st hinv hacc
    have h0 := hacc 0 (by simp)
    simp only [Nat.add_zero, List.getElem_cons_zero] at h0
    obtain ⟨h1, hinv1⟩ := toInputStep_eq l i st hinv t.kind t.text h0.1 h0.2
    simp only [List.length_cons, toInputLoop, h1, List.foldl_cons]
    exact ih (i + 1) _ hinv1 (fun j hj => by
      have := hacc (j + 1) (by simp; omega)
      simp only [List.getElem_cons_succ] at this
      rw [show i + 1 + j = i + (j + 1) by omega]; exact this)

/-- **The exact value of `to_input`** on a lexed text -/
theorem toInput_exact (uc : UC) (s : List Char) :
    (lexedOf uc s).toInput =
      some ⟨ntKinds (rawToksOf (lexedOf uc s)), jointSpec (rawToksOf (lexedOf uc s))⟩ := by
  rw [rawToksOf_lexedOf]
  have hloop := toInputLoop_eq (lexedOf uc s) ((tokenize uc s).map rawOf) 0 ⟨Input.empty, false⟩
    ⟨rfl, by simp⟩ (fun j hj => by
      have hj' : j < (tokenize uc s).length := by simpa using hj
      rw [Nat.zero_add, lexedOf_kindAt uc s j hj', lexedOf_textAt uc s j hj']
      simp [rawOf])
  simp only [List.length_map] at hloop
  simp only [LexedStr.toInput, lexedOf_len, hloop, Option.map_some, fold_pureStep]
  simp [Input.empty]

/-! ### (a), (b): what the parser input says about the raw token table -/

theorem jointSpec_length (toks : List RawTok) : (jointSpec toks).length = (ntKinds toks).length := by
  induction toks with
  | nil => rfl
  | cons t rest ih => cases h : t.kind.isTrivia <;> simp [jointSpec, ntKinds, h] at ih ⊢ <;> exact ih

theorem adjBits_length (toks : List RawTok) : (adjBits toks).length = (ntKinds toks).length := by
  induction toks with
  | nil => rfl
  | cons t rest ih => cases h : t.kind.isTrivia <;> simp [adjBits, ntKinds, h] at ih ⊢ <;> exact ih

/-- **Joint exactness.**  A joint bit on a token that is not a `FLOAT_NUMBER` means that the next
raw token is non-trivia: the two are adjacent in the token table. -/
theorem joint_exact (toks : List RawTok) (i : Nat)
    (hj : (jointSpec toks).getD i false = true)
    (hk : (ntKinds toks).getD i .EOF ≠ .FLOAT_NUMBER) : (adjBits toks).getD i false = true := by
  induction toks generalizing i with
  | nil => simp [jointSpec] at hj
  | cons t rest ih =>
    cases htr : t.kind.isTrivia with
    | true =>
      simp only [jointSpec, ntKinds, adjBits, htr, if_true, List.filter_cons, Bool.not_true,
        Bool.false_eq_true, if_false] at hj hk ⊢
      exact ih i hj hk
    | false =>
      have hnt : ntKinds (t :: rest) = t.kind :: ntKinds rest := by simp [ntKinds, htr]
      simp only [jointSpec, adjBits, htr, Bool.false_eq_true, if_false, hnt] at hj hk ⊢
      cases i with
      | zero =>
        simp only [List.getD_cons_zero] at hj hk ⊢
        have : (t.kind == SyntaxKind.FLOAT_NUMBER) = false := by simpa using hk
        simpa [this] using hj
      | succ i =>
        simp only [List.getD_cons_succ] at hj hk ⊢
        exact ih i hj hk

end Oq3.Bridge
