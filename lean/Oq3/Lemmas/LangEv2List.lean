/-
C04, extended reference language, part 4: the lists inside postfix operators — call arguments,
index items (expressions and ranges), index operators, the loop of an indexed identifier.
-/
import Oq3.Lemmas.LangEv2Atom
set_option linter.unusedSimpArgs false
set_option linter.unusedVariables false

namespace Oq3.LangEv2
open Oq3.Gen Oq3.Parser Oq3.Grammar Oq3.SymExec Oq3.PrattEv Oq3.LangEv

/-- closes `ok (a, s.ov E' n' …) = ok (a, s.ov E n …)` for the extended encodings -/
macro "close_ov2" : tactic => `(tactic| (
  first
    | rfl
    | (refine ok_ov_congr _ _ _ _ _ _ _ _ _ _ _ ?_ ?_ ?_
       · first | rfl | omega | (simp only [List.length_cons, List.length_nil]; omega)
       · (try simp only [evsX, evsXs, evsItem, evsItems, evsIdx, bodyP, bodyX, tyEvs, blockEvs, exprStmtTail, tombLink,
            Ty.kind, PTy.kind, qubitEvs, paramEvs, typedEvs, retEvs,
            List.cons_append, List.nil_append, List.append_assoc]); (try rfl)
       · (try simp only [toksX, toksP, toksXs, toksItem, toksItems, toksIdx, tyToks, qubitToks, typedToks, retToks, tk,
            List.length_cons, List.length_nil, List.length_append]); omega)))

set_option hygiene false in
macro "run_base2" "[" hs:Lean.Parser.Tactic.simpLemma,* "]" : tactic => `(tactic| (
  have hnp := hr.hook
  have hsteps := hr.steps
  have hlim := hr.lim
  have hst : s.steps ≤ s.stepLimit := by omega
  have hst1 : s.steps + 1 ≤ s.stepLimit := by omega
  have hpr := hr.prot
  refine ⟨?_, ?_, ?_, of_ov _ _ _ ?_⟩
  rotate_left 3
  · sym_eval [filter_base s hpr, contains_base s hpr, $hs,*]
    close_ov2
  · first | exact Nat.zero_le _ | omega))

set_option hygiene false in
/-- symbolic execution from the base state `s` to an exact final overlay state -/
macro "run_exact2" "[" hs:Lean.Parser.Tactic.simpLemma,* "]" : tactic => `(tactic| (
  have hnp := hr.hook
  have hsteps := hr.steps
  have hlim := hr.lim
  have hst : s.steps ≤ s.stepLimit := by omega
  have hst1 : s.steps + 1 ≤ s.stepLimit := by omega
  have hpr := hr.prot
  refine of_ov _ _ _ ?_
  sym_eval [filter_base s hpr, contains_base s hpr, $hs,*]
  close_ov2))

/-- all expressions of the list are accepted with fuel `n` -/
def XsOK : XList → Nat → Prop
  | .nil, _ => True
  | .cons x xs, n => ExprOK x n ∧ XsOK xs n

def countXs : XList → Nat
  | .nil => 0
  | .cons _ xs => countXs xs + 1

/-- the loop of `delimited` on the arguments of a call -/
theorem argLoopX : ∀ (a : X) (as : XList) (n F : Nat) (s : P), XsOK (.cons a as) n → n + 3 + countXs as ≤ F → RdyL 6 s →
    Toks s s.pos (toksXs (.cons a as)) → s.kindAt (s.pos + (toksXs (.cons a as)).length) = .R_PAREN →
    CanonXs (.cons a as) →
    Acc (delimitedLoop F .R_PAREN .COMMA TokenSets.EXPR_FIRST .exprIsSome) s (toksXs (.cons a as)).length
      (evsXs (.cons a as))
  | a, .nil, n, F, s, hok, hF, hr, htk, hclose, hc => by
    obtain ⟨g, rfl⟩ : ∃ g, F = g + 3 := ⟨F - 3, by omega⟩
    simp only [toksXs] at htk hclose
    have hpr' : ∀ n, ∀ p ∈ s.protectedPos, p < s.events.size + n := fun n p hp => Nat.lt_add_right n (hr.prot p hp)
    have ha : ∀ st sb lv E0, st + 5 ≤ s.stepLimit → Oq3.Grammar.expr (g + 1) (s.ov E0 0 st sb lv s.protectedPos) = _ :=
      fun st sb lv E0 h1 => hok.1.expr g s E0 0 st sb lv s.protectedPos hr.hook h1 hr.lim (hpr' _)
        htk hc.1 (by rw [Nat.add_zero, hclose]; rfl) (by simp only [countXs] at hF; omega)
    obtain ⟨j, ts, hts⟩ := toksX_first a
    have h0 : s.kindAt (s.pos + 0) = firstX a := by rw [hts] at htk; exact htk.1
    obtain ⟨-, e1, e2, -⟩ := xFirst_ne (h0 ▸ firstX_xFirst a)
    have b1 := beq_false_of_ne e1
    have b2 := beq_false_of_ne e2
    have hclose' : s.kindAt (s.pos + (0 + (toksX a).length)) = .R_PAREN := by rw [Nat.zero_add]; exact hclose
    run_base2 [b1, b2, ha, hclose']
  | a, .cons b bs, n, F, s, hok, hF, hr, htk, hclose, hc => by
    obtain ⟨g, rfl⟩ : ∃ g, F = g + 3 := ⟨F - 3, by omega⟩
    simp only [countXs] at hF
    rw [show toksXs (.cons a (.cons b bs)) = toksX a ++ (tk .COMMA :: toksXs (.cons b bs)) from rfl] at htk hclose
    simp only [Toks_append, Toks, tk, List.length_append, List.length_cons] at htk hclose
    obtain ⟨hta, hcomma, -, htrest⟩ := htk
    have hpr' : ∀ n, ∀ p ∈ s.protectedPos, p < s.events.size + n := fun n p hp => Nat.lt_add_right n (hr.prot p hp)
    have ha : ∀ st sb lv E0, st + 5 ≤ s.stepLimit → Oq3.Grammar.expr (g + 1) (s.ov E0 0 st sb lv s.protectedPos) = _ :=
      fun st sb lv E0 h1 => hok.1.expr g s E0 0 st sb lv s.protectedPos hr.hook h1 hr.lim (hpr' _)
        hta hc.1 (by rw [Nat.add_zero, hcomma]; rfl) (by omega)
    obtain ⟨st', sb', hle, hrec⟩ :=
      (argLoopX b bs n (g + 2) (s.ov (evsX a ++ [Ev.token .COMMA 1]) (0 + (toksX a).length + 1) 0 1 s.live s.protectedPos)
        hok.2 (by omega)
        (RdyL_ov 6 s _ _ _ _ _ _ hr.hook (by have := hr.steps; have := hr.lim; omega) (hpr' _) hr.lim)
        ((Toks_ov s _ _ _ _ _ _ _ _).2 (Toks_pos htrest (by show s.pos + _ = _; omega)))
        (kindAt_pos hclose (by show s.pos + _ + _ = _; omega)) hc.2).at_ov
    obtain ⟨j, ts, hts⟩ := toksX_first a
    have h0 : s.kindAt (s.pos + 0) = firstX a := by rw [hts] at hta; exact hta.1
    obtain ⟨-, e1, e2, -⟩ := xFirst_ne (h0 ▸ firstX_xFirst a)
    have b1 := beq_false_of_ne e1
    have b2 := beq_false_of_ne e2
    have hcomma' : s.kindAt (s.pos + (0 + (toksX a).length)) = .COMMA := by rw [Nat.zero_add]; exact hcomma
    run_base2 [b1, b2, ha, hcomma', hrec]

/-- `call_arg_list` on `( a0, …, an )` (possibly empty) -/
theorem callArgsX (args : XList) (n F : Nat) (s : P) (hok : XsOK args n) (hF : n + 5 + countXs args ≤ F) (hr : RdyL 6 s)
    (h0 : s.kindAt (s.pos + 0) = .L_PAREN) (htk : Toks s (s.pos + 1) (toksXs args))
    (hclose : s.kindAt (s.pos + (1 + (toksXs args).length)) = .R_PAREN) (hc : CanonXs args) :
    callArgList F s = .ok ((), s.ov
      (.start .ARG_LIST none :: .start .EXPRESSION_LIST none :: .token .L_PAREN 1 ::
        (evsXs args ++ [.token .R_PAREN 1, .finish, .finish])) ((toksXs args).length + 2) 0 3 s.live s.protectedPos) := by
  obtain ⟨g, rfl⟩ : ∃ g, F = g + 3 := ⟨F - 3, by omega⟩
  cases args with
  | nil =>
    simp only [toksXs, List.length_nil, Nat.add_zero] at hclose
    run_exact2 [h0, hclose]
  | cons a as =>
    have hpr' : ∀ n, ∀ p ∈ s.protectedPos, p < s.events.size + n := fun n p hp => Nat.lt_add_right n (hr.prot p hp)
    obtain ⟨st', sb', hle, hloop⟩ :=
      (argLoopX a as n (g + 1)
        (s.ov [.start .TOMBSTONE none, .start .TOMBSTONE none, .token .L_PAREN 1] 1 0 1 (s.live + 1 + 1) s.protectedPos)
        hok (by simp only [countXs] at hF; omega) (RdyL_ov 6 s _ _ _ _ _ _ hr.hook (by have := hr.steps; have := hr.lim; omega) (hpr' _) hr.lim)
        ((Toks_ov s _ _ _ _ _ _ _ _).2 htk)
        (kindAt_pos hclose (by show s.pos + 1 + _ = _; omega)) hc).at_ov
    run_exact2 [h0, hloop, hclose]

/-- acceptance with some value (for calls whose result is discarded) -/
def AccA {α} (x : G α) (s : P) (n : Nat) (E : List Ev) : Prop := ∃ a, AccV x a s n E

theorem exprEnd_pos {s : P} {A B : Nat} (h : exprEnd2 (s.kindAt B) = true) (e : A = B) : exprEnd2 (s.kindAt A) = true := e ▸ h

def ItemOK : Item → Nat → Prop
  | .ex x, n => ExprOK x n
  | .r2 lo hi, n => ExprOK lo n ∧ ExprOK hi n
  | .r3 lo mid hi, n => ExprOK lo n ∧ ExprOK mid n ∧ ExprOK hi n

theorem evsX_len_pos (x : X) : 2 ≤ (evsX x).length := by
  rw [evsX_length]; have := lenX_pos x; omega

/-- `expr_or_range_expr` on an index item followed by `,` or `]` -/
theorem item_acc (i : Item) (n F : Nat) (s : P) (hok : ItemOK i n) (hF : n + 2 ≤ F) (hr : RdyL 6 s)
    (htk : Toks s s.pos (toksItem i)) (hc : CanonItem i)
    (hfol : s.kindAt (s.pos + (toksItem i).length) = .COMMA ∨ s.kindAt (s.pos + (toksItem i).length) = .R_BRACK ∨
      s.kindAt (s.pos + (toksItem i).length) = .R_CURLY ∨ s.kindAt (s.pos + (toksItem i).length) = .L_CURLY) :
    AccA (exprOrRangeExpr F) s (toksItem i).length (evsItem i) := by
  obtain ⟨g, rfl⟩ : ∃ g, F = g + 2 := ⟨F - 2, by omega⟩
  have hpr' : ∀ n, ∀ p ∈ s.protectedPos, p < s.events.size + n := fun n p hp => Nat.lt_add_right n (hr.prot p hp)
  have hend : exprEnd2 (s.kindAt (s.pos + (toksItem i).length)) = true := by
    rcases hfol with h | h | h | h <;> rw [h] <;> rfl
  have hncol : s.kindAt (s.pos + (toksItem i).length) ≠ .COLON := by
    rcases hfol with h | h | h | h <;> rw [h] <;> decide
  cases i with
  | ex x =>
    simp only [toksItem] at htk hend hncol
    have hx : ∀ st sb lv E0, st + 5 ≤ s.stepLimit →
        exprBp (g + 1) none { preferStmt := false } 1 (s.ov E0 0 st sb lv s.protectedPos) = _ :=
      fun st sb lv E0 h1 => hok.atEnd 1 (g + 1) _ s E0 0 st sb lv s.protectedPos hr.hook h1 hr.lim (hpr' _) htk hc
        (Nat.le_refl _) (by decide) (by rw [Nat.add_zero]; exact hend) (by omega)
    have hncol' : s.kindAt (s.pos + (0 + (toksX x).length)) ≠ .COLON := by rw [Nat.zero_add]; exact hncol
    have hab := fun dp st sb lv => abandon_mid s hr.prot (Ev.start SyntaxKind.TOMBSTONE none :: evsX x) dp st sb lv 0
      (by have := evsX_len_pos x; simp only [List.length_cons]; omega)
    refine ⟨?_, ?_⟩
    rotate_left
    run_base2 [hx, hncol', hab]
  | r2 lo hi =>
    simp only [toksItem, Toks_append, Toks, tk, List.length_append, List.length_cons] at htk hend hncol
    obtain ⟨htl, hcol, -, hth⟩ := htk
    have hl : ∀ st sb lv E0, st + 5 ≤ s.stepLimit →
        exprBp (g + 1) none { preferStmt := false } 1 (s.ov E0 0 st sb lv s.protectedPos) = _ :=
      fun st sb lv E0 h1 => hok.1.atEnd 1 (g + 1) _ s E0 0 st sb lv s.protectedPos hr.hook h1 hr.lim (hpr' _) htl hc.1
        (Nat.le_refl _) (by decide) (by rw [Nat.add_zero, hcol]; rfl) (by omega)
    have hh : ∀ st sb lv E0, st + 5 ≤ s.stepLimit →
        exprBp (g + 1) none { preferStmt := false } 1 (s.ov E0 (0 + (toksX lo).length + 1) st sb lv s.protectedPos) = _ :=
      fun st sb lv E0 h1 => hok.2.atEnd 1 (g + 1) _ s E0 _ st sb lv s.protectedPos hr.hook h1 hr.lim (hpr' _)
        (Toks_pos hth (by omega)) hc.2 (Nat.le_refl _) (by decide) (exprEnd_pos hend (by omega)) (by omega)
    have hcol' : s.kindAt (s.pos + (0 + (toksX lo).length)) = .COLON := by rw [Nat.zero_add]; exact hcol
    have hncol' : s.kindAt (s.pos + (0 + (toksX lo).length + 1 + (toksX hi).length)) ≠ .COLON := by
      intro h; exact hncol (kindAt_pos h (by omega))
    refine ⟨?_, ?_⟩
    rotate_left
    run_base2 [hl, hcol', hh, hncol']
  | r3 lo mid hi =>
    simp only [toksItem, Toks_append, Toks, tk, List.length_append, List.length_cons] at htk hend hncol
    obtain ⟨htl, hcol, -, htm, hcol2, -, hth⟩ := htk
    have hl : ∀ st sb lv E0, st + 5 ≤ s.stepLimit →
        exprBp (g + 1) none { preferStmt := false } 1 (s.ov E0 0 st sb lv s.protectedPos) = _ :=
      fun st sb lv E0 h1 => hok.1.atEnd 1 (g + 1) _ s E0 0 st sb lv s.protectedPos hr.hook h1 hr.lim (hpr' _) htl hc.1
        (Nat.le_refl _) (by decide) (by rw [Nat.add_zero, hcol]; rfl) (by omega)
    have hm : ∀ st sb lv E0, st + 5 ≤ s.stepLimit →
        exprBp (g + 1) none { preferStmt := false } 1 (s.ov E0 (0 + (toksX lo).length + 1) st sb lv s.protectedPos) = _ :=
      fun st sb lv E0 h1 => hok.2.1.atEnd 1 (g + 1) _ s E0 _ st sb lv s.protectedPos hr.hook h1 hr.lim (hpr' _)
        (Toks_pos htm (by omega)) hc.2.1 (Nat.le_refl _) (by decide) (by rw [kindAt_pos hcol2 (by omega)]; rfl) (by omega)
    have hh : ∀ st sb lv E0, st + 5 ≤ s.stepLimit →
        exprBp (g + 1) none { preferStmt := false } 1
          (s.ov E0 (0 + (toksX lo).length + 1 + (toksX mid).length + 1) st sb lv s.protectedPos) = _ :=
      fun st sb lv E0 h1 => hok.2.2.atEnd 1 (g + 1) _ s E0 _ st sb lv s.protectedPos hr.hook h1 hr.lim (hpr' _)
        (Toks_pos hth (by omega)) hc.2.2 (Nat.le_refl _) (by decide) (exprEnd_pos hend (by omega)) (by omega)
    have hcol' : s.kindAt (s.pos + (0 + (toksX lo).length)) = .COLON := by rw [Nat.zero_add]; exact hcol
    have hcol2' : s.kindAt (s.pos + (0 + (toksX lo).length + 1 + (toksX mid).length)) = .COLON := kindAt_pos hcol2 (by omega)
    refine ⟨?_, ?_⟩
    rotate_left
    run_base2 [hl, hcol', hm, hcol2', hh]

theorem toksItem_first (i : Item) : ∃ j ts, toksItem i = (firstItem i, j) :: ts := by
  cases i with
  | ex x => exact toksX_first x
  | r2 lo hi =>
    obtain ⟨j, ts, h⟩ := toksX_first lo
    exact ⟨j, ts ++ (tk .COLON :: toksX hi), by simp [toksItem, firstItem, h]⟩
  | r3 lo mid hi =>
    obtain ⟨j, ts, h⟩ := toksX_first lo
    exact ⟨j, ts ++ (tk .COLON :: (toksX mid ++ (tk .COLON :: toksX hi))), by simp [toksItem, firstItem, h]⟩

theorem firstItem_xFirst (i : Item) : xFirst (firstItem i) = true := by
  cases i <;> exact firstX_xFirst _

/-- the item test of `_param_list_openqasm` (`is_type || at_ts(PARAM_FIRST) || …`) on a first token of an
expression: `~` and `measure` are missing from `PARAM_FIRST` -/
theorem xFirst_param {k : SyntaxKind} (h : xFirst k = true) (h1 : k ≠ .TILDE) (h2 : k ≠ .MEASURE_KW) :
    isType k = true ∨ (isType k = false ∧ (decide (k.toNat < 128) && TokenSets.PARAM_FIRST.contains k) = true) := by
  simp only [xFirst, Bool.or_eq_true, beq_iff_eq] at h
  rcases h with ((((((((((((((((h | h) | h) | h) | h) | h) | h) | h) | h) | h) | h) | h) | h) | h) | h) | h) | h) | h <;>
    subst h <;> first | (exact absurd rfl h1) | (exact absurd rfl h2) | (left; rfl) | (right; exact ⟨rfl, by decide⟩)

def ItemsOK : ItemList → Nat → Prop
  | .one i, n => ItemOK i n
  | .cons i is, n => ItemOK i n ∧ ItemsOK is n

def countItems : ItemList → Nat
  | .one _ => 0
  | .cons _ is => countItems is + 1

/-- the item loop of `_param_list_openqasm` on the items of an index operator -/
theorem itemsLoop : ∀ (is : ItemList) (n F k : Nat) (s : P), ItemsOK is n → n + 4 + countItems is ≤ F → RdyL 6 s →
    Toks s s.pos (toksItems is) → s.kindAt (s.pos + (toksItems is).length) = .R_BRACK →
    CanonItems is → ItemsFirstOK is →
    AccV (paramListOpenqasmLoop F .expressionList k) (k + countItems is + 1) s (toksItems is).length (evsItems is)
  | .one i, n, F, k, s, hok, hF, hr, htk, hend, hc, hfo => by
    obtain ⟨g, rfl⟩ : ∃ g, F = g + 2 := ⟨F - 2, by omega⟩
    simp only [toksItems] at htk hend
    simp only [countItems] at hF
    have hpr' : ∀ n, ∀ p ∈ s.protectedPos, p < s.events.size + n := fun n p hp => Nat.lt_add_right n (hr.prot p hp)
    obtain ⟨v, st', sb', hle, hitem⟩ :=
      (item_acc i n g (s.ov [] 0 s.steps (s.sinceBump + 1) s.live s.protectedPos) hok (by omega)
        (RdyL_ov 6 s _ _ _ _ _ _ hr.hook hr.steps (hpr' _) hr.lim)
        ((Toks_ov s _ _ _ _ _ _ _ _).2 (by rw [Nat.add_zero]; exact htk)) hc
        (Or.inr (Or.inl (by show s.kindAt (s.pos + 0 + _) = _; rw [Nat.add_zero]; exact hend))))
    obtain ⟨st2, sb2, hle2, hitem'⟩ := AccV.at_ov ⟨st', sb', hle, hitem⟩
    obtain ⟨j, ts, hts⟩ := toksItem_first i
    have h0 : s.kindAt (s.pos + 0) = firstItem i := by rw [hts] at htk; exact htk.1
    have hxf := h0 ▸ firstItem_xFirst i
    obtain ⟨-, -, e2, -, -, -, e3, -, e4, -⟩ := xFirst_ne hxf
    have b2 := beq_false_of_ne e2
    have b3 := beq_false_of_ne e3
    have b4 := beq_false_of_ne e4
    have hend' : s.kindAt (s.pos + (0 + (toksItem i).length)) = .R_BRACK := by rw [Nat.zero_add]; exact hend
    rcases xFirst_param hxf (h0 ▸ hfo.1) (h0 ▸ hfo.2) with hT | ⟨hT, hP⟩
    · run_base2 [b2, b3, b4, hT, hitem', hend']
    · run_base2 [b2, b3, b4, hT, hP, hitem', hend']
  | .cons i is, n, F, k, s, hok, hF, hr, htk, hend, hc, hfo => by
    obtain ⟨g, rfl⟩ : ∃ g, F = g + 2 := ⟨F - 2, by omega⟩
    rw [show toksItems (.cons i is) = toksItem i ++ (tk .COMMA :: toksItems is) from rfl] at htk hend
    simp only [Toks_append, Toks, tk, List.length_append, List.length_cons] at htk hend
    simp only [countItems] at hF
    obtain ⟨hti, hcomma, -, htrest⟩ := htk
    have hpr' : ∀ n, ∀ p ∈ s.protectedPos, p < s.events.size + n := fun n p hp => Nat.lt_add_right n (hr.prot p hp)
    obtain ⟨v, st', sb', hle, hitem⟩ :=
      (item_acc i n g (s.ov [] 0 s.steps (s.sinceBump + 1) s.live s.protectedPos) hok.1 (by omega)
        (RdyL_ov 6 s _ _ _ _ _ _ hr.hook hr.steps (hpr' _) hr.lim)
        ((Toks_ov s _ _ _ _ _ _ _ _).2 (by rw [Nat.add_zero]; exact hti)) hc.1
        (Or.inl (by show s.kindAt (s.pos + 0 + _) = _; rw [Nat.add_zero]; exact hcomma)))
    obtain ⟨st2, sb2, hle2, hitem'⟩ := AccV.at_ov ⟨st', sb', hle, hitem⟩
    obtain ⟨st3, sb3, hle3, hrec⟩ :=
      (itemsLoop is n (g + 1) (k + 1)
        (s.ov (evsItem i ++ [Ev.token .COMMA 1]) (0 + (toksItem i).length + 1) 0 1 s.live s.protectedPos)
        hok.2 (by omega) (RdyL_ov 6 s _ _ _ _ _ _ hr.hook (by have := hr.steps; have := hr.lim; omega) (hpr' _) hr.lim)
        ((Toks_ov s _ _ _ _ _ _ _ _).2 (Toks_pos htrest (by show s.pos + _ = _; omega)))
        (kindAt_pos hend (by show s.pos + _ + _ = _; omega)) hc.2 hfo.2).at_ov
    obtain ⟨j, ts, hts⟩ := toksItem_first i
    have h0 : s.kindAt (s.pos + 0) = firstItem i := by rw [hts] at hti; exact hti.1
    have hxf := h0 ▸ firstItem_xFirst i
    obtain ⟨-, -, e2, -, -, -, e3, -, e4, -⟩ := xFirst_ne hxf
    have b2 := beq_false_of_ne e2
    have b3 := beq_false_of_ne e3
    have b4 := beq_false_of_ne e4
    have hcomma' : s.kindAt (s.pos + (0 + (toksItem i).length)) = .COMMA := by rw [Nat.zero_add]; exact hcomma
    simp only [List.nil_append] at hitem'
    show AccV (paramListOpenqasmLoop (g + 2) .expressionList k) (k + (countItems is + 1) + 1) s _ _
    rcases xFirst_param hxf (h0 ▸ hfo.1.1) (h0 ▸ hfo.1.2) with hT | ⟨hT, hP⟩
    · run_base2 [b2, b3, b4, hT, hitem', hcomma', hrec]
    · run_base2 [b2, b3, b4, hT, hP, hitem', hcomma', hrec]

/-- the item loop of `_param_list_openqasm` on the elements of a set expression `{ … }` -/
theorem itemsLoopSet : ∀ (is : ItemList) (n F k : Nat) (s : P), ItemsOK is n → n + 4 + countItems is ≤ F → RdyL 6 s →
    Toks s s.pos (toksItems is) → s.kindAt (s.pos + (toksItems is).length) = .R_CURLY →
    CanonItems is → ItemsFirstOK is →
    AccV (paramListOpenqasmLoop F .expressionList k) (k + countItems is + 1) s (toksItems is).length (evsItems is)
  | .one i, n, F, k, s, hok, hF, hr, htk, hend, hc, hfo => by
    obtain ⟨g, rfl⟩ : ∃ g, F = g + 2 := ⟨F - 2, by omega⟩
    simp only [toksItems] at htk hend
    simp only [countItems] at hF
    have hpr' : ∀ n, ∀ p ∈ s.protectedPos, p < s.events.size + n := fun n p hp => Nat.lt_add_right n (hr.prot p hp)
    obtain ⟨v, st', sb', hle, hitem⟩ :=
      (item_acc i n g (s.ov [] 0 s.steps (s.sinceBump + 1) s.live s.protectedPos) hok (by omega)
        (RdyL_ov 6 s _ _ _ _ _ _ hr.hook hr.steps (hpr' _) hr.lim)
        ((Toks_ov s _ _ _ _ _ _ _ _).2 (by rw [Nat.add_zero]; exact htk)) hc
        (Or.inr (Or.inr (Or.inl (by show s.kindAt (s.pos + 0 + _) = _; rw [Nat.add_zero]; exact hend)))))
    obtain ⟨st2, sb2, hle2, hitem'⟩ := AccV.at_ov ⟨st', sb', hle, hitem⟩
    obtain ⟨j, ts, hts⟩ := toksItem_first i
    have h0 : s.kindAt (s.pos + 0) = firstItem i := by rw [hts] at htk; exact htk.1
    have hxf := h0 ▸ firstItem_xFirst i
    obtain ⟨-, -, e2, -, -, -, e3, -, e4, -⟩ := xFirst_ne hxf
    have b2 := beq_false_of_ne e2
    have b3 := beq_false_of_ne e3
    have b4 := beq_false_of_ne e4
    have hend' : s.kindAt (s.pos + (0 + (toksItem i).length)) = .R_CURLY := by rw [Nat.zero_add]; exact hend
    rcases xFirst_param hxf (h0 ▸ hfo.1) (h0 ▸ hfo.2) with hT | ⟨hT, hP⟩
    · run_base2 [b2, b3, b4, hT, hitem', hend']
    · run_base2 [b2, b3, b4, hT, hP, hitem', hend']
  | .cons i is, n, F, k, s, hok, hF, hr, htk, hend, hc, hfo => by
    obtain ⟨g, rfl⟩ : ∃ g, F = g + 2 := ⟨F - 2, by omega⟩
    rw [show toksItems (.cons i is) = toksItem i ++ (tk .COMMA :: toksItems is) from rfl] at htk hend
    simp only [Toks_append, Toks, tk, List.length_append, List.length_cons] at htk hend
    simp only [countItems] at hF
    obtain ⟨hti, hcomma, -, htrest⟩ := htk
    have hpr' : ∀ n, ∀ p ∈ s.protectedPos, p < s.events.size + n := fun n p hp => Nat.lt_add_right n (hr.prot p hp)
    obtain ⟨v, st', sb', hle, hitem⟩ :=
      (item_acc i n g (s.ov [] 0 s.steps (s.sinceBump + 1) s.live s.protectedPos) hok.1 (by omega)
        (RdyL_ov 6 s _ _ _ _ _ _ hr.hook hr.steps (hpr' _) hr.lim)
        ((Toks_ov s _ _ _ _ _ _ _ _).2 (by rw [Nat.add_zero]; exact hti)) hc.1
        (Or.inl (by show s.kindAt (s.pos + 0 + _) = _; rw [Nat.add_zero]; exact hcomma)))
    obtain ⟨st2, sb2, hle2, hitem'⟩ := AccV.at_ov ⟨st', sb', hle, hitem⟩
    obtain ⟨st3, sb3, hle3, hrec⟩ :=
      (itemsLoopSet is n (g + 1) (k + 1)
        (s.ov (evsItem i ++ [Ev.token .COMMA 1]) (0 + (toksItem i).length + 1) 0 1 s.live s.protectedPos)
        hok.2 (by omega) (RdyL_ov 6 s _ _ _ _ _ _ hr.hook (by have := hr.steps; have := hr.lim; omega) (hpr' _) hr.lim)
        ((Toks_ov s _ _ _ _ _ _ _ _).2 (Toks_pos htrest (by show s.pos + _ = _; omega)))
        (kindAt_pos hend (by show s.pos + _ + _ = _; omega)) hc.2 hfo.2).at_ov
    obtain ⟨j, ts, hts⟩ := toksItem_first i
    have h0 : s.kindAt (s.pos + 0) = firstItem i := by rw [hts] at hti; exact hti.1
    have hxf := h0 ▸ firstItem_xFirst i
    obtain ⟨-, -, e2, -, -, -, e3, -, e4, -⟩ := xFirst_ne hxf
    have b2 := beq_false_of_ne e2
    have b3 := beq_false_of_ne e3
    have b4 := beq_false_of_ne e4
    have hcomma' : s.kindAt (s.pos + (0 + (toksItem i).length)) = .COMMA := by rw [Nat.zero_add]; exact hcomma
    simp only [List.nil_append] at hitem'
    show AccV (paramListOpenqasmLoop (g + 2) .expressionList k) (k + (countItems is + 1) + 1) s _ _
    rcases xFirst_param hxf (h0 ▸ hfo.1.1) (h0 ▸ hfo.1.2) with hT | ⟨hT, hP⟩
    · run_base2 [b2, b3, b4, hT, hitem', hcomma', hrec]
    · run_base2 [b2, b3, b4, hT, hP, hitem', hcomma', hrec]


/-- the item loop of `_param_list_openqasm` on the values of a `case` -/
theorem itemsLoopCase : ∀ (is : ItemList) (n F k : Nat) (s : P), ItemsOK is n → n + 4 + countItems is ≤ F → RdyL 6 s →
    Toks s s.pos (toksItems is) → s.kindAt (s.pos + (toksItems is).length) = .L_CURLY →
    CanonItems is → ItemsFirstOK is →
    AccV (paramListOpenqasmLoop F .caseValues k) (k + countItems is + 1) s (toksItems is).length (evsItems is)
  | .one i, n, F, k, s, hok, hF, hr, htk, hend, hc, hfo => by
    obtain ⟨g, rfl⟩ : ∃ g, F = g + 2 := ⟨F - 2, by omega⟩
    simp only [toksItems] at htk hend
    simp only [countItems] at hF
    have hpr' : ∀ n, ∀ p ∈ s.protectedPos, p < s.events.size + n := fun n p hp => Nat.lt_add_right n (hr.prot p hp)
    obtain ⟨v, st', sb', hle, hitem⟩ :=
      (item_acc i n g (s.ov [] 0 s.steps (s.sinceBump + 1) s.live s.protectedPos) hok (by omega)
        (RdyL_ov 6 s _ _ _ _ _ _ hr.hook hr.steps (hpr' _) hr.lim)
        ((Toks_ov s _ _ _ _ _ _ _ _).2 (by rw [Nat.add_zero]; exact htk)) hc
        (Or.inr (Or.inr (Or.inr (by show s.kindAt (s.pos + 0 + _) = _; rw [Nat.add_zero]; exact hend)))))
    obtain ⟨st2, sb2, hle2, hitem'⟩ := AccV.at_ov ⟨st', sb', hle, hitem⟩
    obtain ⟨j, ts, hts⟩ := toksItem_first i
    have h0 : s.kindAt (s.pos + 0) = firstItem i := by rw [hts] at htk; exact htk.1
    have hxf := h0 ▸ firstItem_xFirst i
    obtain ⟨-, -, e2, -, -, -, e3, -, e4, -⟩ := xFirst_ne hxf
    have b2 := beq_false_of_ne e2
    have b3 := beq_false_of_ne e3
    have b4 := beq_false_of_ne e4
    have hend' : s.kindAt (s.pos + (0 + (toksItem i).length)) = .L_CURLY := by rw [Nat.zero_add]; exact hend
    rcases xFirst_param hxf (h0 ▸ hfo.1) (h0 ▸ hfo.2) with hT | ⟨hT, hP⟩
    · run_base2 [b2, b3, b4, hT, hitem', hend']
    · run_base2 [b2, b3, b4, hT, hP, hitem', hend']
  | .cons i is, n, F, k, s, hok, hF, hr, htk, hend, hc, hfo => by
    obtain ⟨g, rfl⟩ : ∃ g, F = g + 2 := ⟨F - 2, by omega⟩
    rw [show toksItems (.cons i is) = toksItem i ++ (tk .COMMA :: toksItems is) from rfl] at htk hend
    simp only [Toks_append, Toks, tk, List.length_append, List.length_cons] at htk hend
    simp only [countItems] at hF
    obtain ⟨hti, hcomma, -, htrest⟩ := htk
    have hpr' : ∀ n, ∀ p ∈ s.protectedPos, p < s.events.size + n := fun n p hp => Nat.lt_add_right n (hr.prot p hp)
    obtain ⟨v, st', sb', hle, hitem⟩ :=
      (item_acc i n g (s.ov [] 0 s.steps (s.sinceBump + 1) s.live s.protectedPos) hok.1 (by omega)
        (RdyL_ov 6 s _ _ _ _ _ _ hr.hook hr.steps (hpr' _) hr.lim)
        ((Toks_ov s _ _ _ _ _ _ _ _).2 (by rw [Nat.add_zero]; exact hti)) hc.1
        (Or.inl (by show s.kindAt (s.pos + 0 + _) = _; rw [Nat.add_zero]; exact hcomma)))
    obtain ⟨st2, sb2, hle2, hitem'⟩ := AccV.at_ov ⟨st', sb', hle, hitem⟩
    obtain ⟨st3, sb3, hle3, hrec⟩ :=
      (itemsLoopCase is n (g + 1) (k + 1)
        (s.ov (evsItem i ++ [Ev.token .COMMA 1]) (0 + (toksItem i).length + 1) 0 1 s.live s.protectedPos)
        hok.2 (by omega) (RdyL_ov 6 s _ _ _ _ _ _ hr.hook (by have := hr.steps; have := hr.lim; omega) (hpr' _) hr.lim)
        ((Toks_ov s _ _ _ _ _ _ _ _).2 (Toks_pos htrest (by show s.pos + _ = _; omega)))
        (kindAt_pos hend (by show s.pos + _ + _ = _; omega)) hc.2 hfo.2).at_ov
    obtain ⟨j, ts, hts⟩ := toksItem_first i
    have h0 : s.kindAt (s.pos + 0) = firstItem i := by rw [hts] at hti; exact hti.1
    have hxf := h0 ▸ firstItem_xFirst i
    obtain ⟨-, -, e2, -, -, -, e3, -, e4, -⟩ := xFirst_ne hxf
    have b2 := beq_false_of_ne e2
    have b3 := beq_false_of_ne e3
    have b4 := beq_false_of_ne e4
    have hcomma' : s.kindAt (s.pos + (0 + (toksItem i).length)) = .COMMA := by rw [Nat.zero_add]; exact hcomma
    simp only [List.nil_append] at hitem'
    show AccV (paramListOpenqasmLoop (g + 2) .caseValues k) (k + (countItems is + 1) + 1) s _ _
    rcases xFirst_param hxf (h0 ▸ hfo.1.1) (h0 ▸ hfo.1.2) with hT | ⟨hT, hP⟩
    · run_base2 [b2, b3, b4, hT, hitem', hcomma', hrec]
    · run_base2 [b2, b3, b4, hT, hP, hitem', hcomma', hrec]


theorem toksItems_first : ∀ is : ItemList, ∃ i j ts, toksItems is = (firstItem i, j) :: ts ∧ xFirst (firstItem i) = true
  | .one i => by
    obtain ⟨j, ts, h⟩ := toksItem_first i
    exact ⟨i, j, ts, h, firstItem_xFirst i⟩
  | .cons i is => by
    obtain ⟨j, ts, h⟩ := toksItem_first i
    exact ⟨i, j, ts ++ (tk .COMMA :: toksItems is), by simp [toksItems, h], firstItem_xFirst i⟩

/-- one index operator `[ items ]` -/
theorem indexOp_acc (is : ItemList) (n F : Nat) (s : P) (hok : ItemsOK is n) (hF : n + 7 + countItems is ≤ F) (hr : RdyL 6 s)
    (h0 : s.kindAt (s.pos + 0) = .L_BRACK) (htk : Toks s (s.pos + 1) (toksItems is))
    (hend : s.kindAt (s.pos + (1 + (toksItems is).length)) = .R_BRACK) (hc : CanonItems is) (hfo : ItemsFirstOK is) :
    indexOperator F s = .ok ((), s.ov
      (.start .INDEX_OPERATOR none :: .token .L_BRACK 1 :: .start .EXPRESSION_LIST none ::
        (evsItems is ++ [.finish, .token .R_BRACK 1, .finish])) ((toksItems is).length + 2) 0 2 s.live s.protectedPos) := by
  obtain ⟨g, rfl⟩ : ∃ g, F = g + 3 := ⟨F - 3, by omega⟩
  have hpr' : ∀ n, ∀ p ∈ s.protectedPos, p < s.events.size + n := fun n p hp => Nat.lt_add_right n (hr.prot p hp)
  obtain ⟨st', sb', hle, hloop⟩ :=
    (itemsLoop is n g 0
      (s.ov [.start .TOMBSTONE none, .token .L_BRACK 1, .start .TOMBSTONE none] 1 0 2 (s.live + 1 + 1) s.protectedPos)
      hok (by omega) (RdyL_ov 6 s _ _ _ _ _ _ hr.hook (by have := hr.steps; have := hr.lim; omega) (hpr' _) hr.lim)
      ((Toks_ov s _ _ _ _ _ _ _ _).2 htk) (kindAt_pos hend (by show s.pos + 1 + _ = _; omega)) hc hfo).at_ov
  obtain ⟨i, j, ts, hts, hxf⟩ := toksItems_first is
  have h1 : s.kindAt (s.pos + 1) = firstItem i := by rw [hts] at htk; exact htk.1
  obtain ⟨-, -, -, -, -, -, -, -, e1, -⟩ := xFirst_ne (h1 ▸ hxf)
  have hnum : (0 + countItems is + 1 < 1) = False := eq_false (by omega)
  run_exact2 [h0, e1, hloop, hnum, hend]

def IdxOK : IdxList → Nat → Prop
  | .one is, n => ItemsOK is n
  | .cons is rest, n => ItemsOK is n ∧ IdxOK rest n

/-- fuel for the index operators of an indexed identifier -/
def needIdxL : IdxList → Nat
  | .one is => countItems is + 8
  | .cons is rest => max (countItems is + 8) (needIdxL rest + 1)

/-- the loop of `indexed_identifier` over consecutive index operators -/
theorem idxLoop : ∀ (ixs : IdxList) (n F : Nat) (s : P), IdxOK ixs n → n + needIdxL ixs ≤ F → RdyL 6 s →
    Toks s s.pos (toksIdx ixs) → s.kindAt (s.pos + (toksIdx ixs).length) ≠ .L_BRACK →
    CanonIdx ixs → IdxFirstOK ixs →
    indexedIdentifierLoop F s = .ok ((), s.ov (evsIdx ixs) (toksIdx ixs).length 0 2 s.live s.protectedPos)
  | .one is, n, F, s, hok, hF, hr, htk, hend, hc, hfo => by
    obtain ⟨g, rfl⟩ : ∃ g, F = g + 2 := ⟨F - 2, by simp only [needIdxL] at hF; omega⟩
    simp only [needIdxL] at hF
    simp only [toksIdx, Toks, Toks_append, tk, List.length_cons, List.length_append, List.length_nil] at htk hend
    obtain ⟨h0, -, hti, hrb, -, -⟩ := htk
    rw [show s.pos = s.pos + 0 from rfl] at h0
    have hpr' : ∀ n, ∀ p ∈ s.protectedPos, p < s.events.size + n := fun n p hp => Nat.lt_add_right n (hr.prot p hp)
    have hop := indexOp_acc is n (g + 1) (s.ov [] 0 s.steps s.sinceBump s.live s.protectedPos) hok (by omega)
        (RdyL_ov 6 s _ _ _ _ _ _ hr.hook hr.steps (hpr' _) hr.lim) h0
        ((Toks_ov s _ _ _ _ _ _ _ _).2 (Toks_pos hti (by show s.pos + 0 + 1 = _; omega)))
        (kindAt_pos hrb (by show s.pos + 0 + _ = _; omega)) hc hfo
    rw [ov_ov] at hop
    simp only [List.nil_append, ov_live, ov_prot] at hop
    have hend' : s.kindAt (s.pos + (0 + ((toksItems is).length + 2))) ≠ .L_BRACK := by
      intro h; exact hend (kindAt_pos h (by omega))
    have b1 := beq_false_of_ne hend'
    have bE : (s.kindAt (s.pos + 0) == SyntaxKind.EOF) = false := by rw [h0]; rfl
    run_exact2 [h0, bE, hop, b1]
  | .cons is rest, n, F, s, hok, hF, hr, htk, hend, hc, hfo => by
    obtain ⟨g, rfl⟩ : ∃ g, F = g + 2 := ⟨F - 2, by simp only [needIdxL] at hF; omega⟩
    simp only [needIdxL] at hF
    rw [show toksIdx (.cons is rest) = tk .L_BRACK :: (toksItems is ++ (tk .R_BRACK :: toksIdx rest)) from rfl] at htk hend
    simp only [Toks, Toks_append, tk, List.length_cons, List.length_append] at htk hend
    obtain ⟨h0, -, hti, hrb, -, htrest⟩ := htk
    rw [show s.pos = s.pos + 0 from rfl] at h0
    have hpr' : ∀ n, ∀ p ∈ s.protectedPos, p < s.events.size + n := fun n p hp => Nat.lt_add_right n (hr.prot p hp)
    have hop := indexOp_acc is n (g + 1) (s.ov [] 0 s.steps s.sinceBump s.live s.protectedPos) hok.1 (by omega)
        (RdyL_ov 6 s _ _ _ _ _ _ hr.hook hr.steps (hpr' _) hr.lim) h0
        ((Toks_ov s _ _ _ _ _ _ _ _).2 (Toks_pos hti (by show s.pos + 0 + 1 = _; omega)))
        (kindAt_pos hrb (by show s.pos + 0 + _ = _; omega)) hc.1 hfo.1
    rw [ov_ov] at hop
    simp only [List.nil_append, ov_live, ov_prot] at hop
    have hrec := idxLoop rest n (g + 1)
        (s.ov (.start .INDEX_OPERATOR none :: .token .L_BRACK 1 :: .start .EXPRESSION_LIST none ::
            (evsItems is ++ [.finish, .token .R_BRACK 1, .finish])) (0 + ((toksItems is).length + 2)) 0 2 s.live s.protectedPos)
        hok.2 (by omega) (RdyL_ov 6 s _ _ _ _ _ _ hr.hook (by have := hr.steps; have := hr.lim; omega) (hpr' _) hr.lim)
        ((Toks_ov s _ _ _ _ _ _ _ _).2 (Toks_pos htrest (by show s.pos + _ = _; omega)))
        (by intro h; exact hend (kindAt_pos h (by show _ = s.pos + _ + _; omega))) hc.2 hfo.2
    rw [ov_ov] at hrec
    simp only [ov_live, ov_prot] at hrec
    have bE : (s.kindAt (s.pos + 0) == SyntaxKind.EOF) = false := by rw [h0]; rfl
    run_exact2 [h0, bE, hop, hrec]


theorem toksIdx_head (ixs : IdxList) : ∃ ts, toksIdx ixs = tk .L_BRACK :: ts := by
  cases ixs <;> exact ⟨_, rfl⟩

/-- `measure q[…]…` -/
theorem atom_measureIdx (ixs : IdxList) (n F : Nat) (r : Restrictions) (s : P) (hok : IdxOK ixs n)
    (hF : n + needIdxL ixs + 5 ≤ F) (hr : RdyL 3 s)
    (h0 : s.kindAt (s.pos + 0) = .MEASURE_KW) (h1 : s.kindAt (s.pos + 1) = .IDENT) (hti : Toks s (s.pos + 2) (toksIdx ixs))
    (hend : s.kindAt (s.pos + (2 + (toksIdx ixs).length)) ≠ .L_BRACK) (hc : CanonIdx ixs) (hfo : IdxFirstOK ixs) :
    atomExpr F r s = .ok (some (⟨s.events.size + 0, .MEASURE_EXPRESSION⟩, .notBlock),
      s.ov (bodyP (.measureIdx ixs) none) ((toksIdx ixs).length + 2) 0 4 s.live s.protectedPos) := by
  obtain ⟨g, rfl⟩ : ∃ g, F = g + 5 := ⟨F - 5, by omega⟩
  obtain ⟨ts, hts⟩ := toksIdx_head ixs
  have h2 : s.kindAt (s.pos + 2) = .L_BRACK := by rw [hts] at hti; exact hti.1
  have hpr' : ∀ n, ∀ p ∈ s.protectedPos, p < s.events.size + n := fun n p hp => Nat.lt_add_right n (hr.prot p hp)
  have hloop := idxLoop ixs n (g + 1)
    (s.ov [Ev.start SyntaxKind.TOMBSTONE none, Ev.token SyntaxKind.MEASURE_KW 1, Ev.start SyntaxKind.IDENTIFIER (some 3),
        Ev.token SyntaxKind.IDENT 1, Ev.finish, Ev.start SyntaxKind.TOMBSTONE none]
      2 0 3 (s.live + 1 + 1) ((s.events.size + 5) :: s.protectedPos)) hok (by omega)
    (RdyL_ov 6 s _ _ _ _ _ _ hr.hook (by have := hr.lim; omega) (by
      intro q hq
      simp only [List.length_cons, List.length_nil]
      rcases List.mem_cons.1 hq with h | h
      · omega
      · have := hr.prot q h; omega) hr.lim)
    ((Toks_ov s _ _ _ _ _ _ _ _).2 hti) (by intro h; exact hend (kindAt_pos h (by show _ = s.pos + 2 + _; omega))) hc hfo
  rw [ov_ov] at hloop
  simp only [List.cons_append, List.nil_append, ov_live, ov_prot] at hloop
  run_exact2 [h0, h1, h2, hloop]

/-! ### the loop of `postfix_expr` -/

/-- one iteration of `postfix_expr`: a call `( args )` on the node completed so far (root `Start` at
position `p`, anywhere in the events) -/
theorem post_iter_call (s : P) (hnp : s.noProgressLimit = 0) (hpr : ∀ p ∈ s.protectedPos, p < s.events.size)
    (p : Nat) (k kc : SyntaxKind) (fp0 : Option Nat) (hp : s.events[p]? = some (.start k fp0))
    (h0 : s.kindAt (s.pos + 0) = .L_PAREN) (f : Nat) (bl : BlockLike)
    (Ea : List Ev) (na sta sba : Nat)
    (hargs : callArgList f
        ((s.setEv p (Ev.start k (some (s.events.size + 0 - p)))).ov [Ev.start SyntaxKind.TOMBSTONE none] 0 s.steps
          (s.sinceBump + 1) (s.live + 1) ((s.events.size + 0) :: s.protectedPos)) =
      .ok ((), (s.setEv p (Ev.start k (some (s.events.size + 0 - p)))).ov (Ev.start SyntaxKind.TOMBSTONE none :: Ea) na sta sba
          (s.live + 1) ((s.events.size + 0) :: s.protectedPos)))
    (hn1 : s.kindAt (s.pos + na) ≠ .IDENT) (hn2 : s.kindAt (s.pos + na) ≠ .HARDWAREIDENT)
    (res : (CompletedMarker × BlockLike) × P)
    (hk : postfixExpr (f + 1) { pos := s.events.size + 0, kind := SyntaxKind.CALL_EXPR } BlockLike.notBlock true
        ((s.setEv p (Ev.start k (some (s.events.size + 0 - p)))).ov
          (Ev.start SyntaxKind.CALL_EXPR none :: (Ea ++ [Ev.finish])) na sta (sba + 1) s.live s.protectedPos) = .ok res) :
    postfixExpr (f + 2) ⟨p, kc⟩ bl true s = .ok res := by
  have hpre := precede_base s hnp p k kc fp0 hp
  have hcomp := fun E dp st sb lv pr i b kind =>
    complete_ov (s.setEv p (.start k (some (s.events.size + 0 - p)))) E dp st sb lv pr hnp i b kind
  simp only [setEv_size] at hcomp
  apply of_ov
  sym_eval [h0, hpre, hargs, hn1, hn2, hcomp, setEv_size, setEv_kindAt, setEv_pos, setEv_npl, setEv_stepLimit,
    filter_base s hpr, contains_base s hpr, bne_self_eq_false, hk]
  rfl

/-- kinds of nodes on which `[…]` makes an INDEX_EXPR -/
def indexBaseKind (k : SyntaxKind) : Bool :=
  k == .PAREN_EXPR || k == .CAST_EXPRESSION || k == .CALL_EXPR || k == .INDEX_EXPR

/-- one iteration of `postfix_expr`: an index operator on a non-identifier node -/
theorem post_iter_index (s : P) (hnp : s.noProgressLimit = 0) (hpr : ∀ p ∈ s.protectedPos, p < s.events.size)
    (p : Nat) (k kc : SyntaxKind) (hkc : indexBaseKind kc = true) (fp0 : Option Nat)
    (hp : s.events[p]? = some (.start k fp0))
    (h0 : s.kindAt (s.pos + 0) = .L_BRACK) (f : Nat) (bl : BlockLike)
    (Ea : List Ev) (na sta sba : Nat)
    (hop : indexOperator f
        ((s.setEv p (Ev.start k (some (s.events.size + 0 - p)))).ov [Ev.start SyntaxKind.TOMBSTONE none] 0 s.steps
          (s.sinceBump + 1) (s.live + 1) ((s.events.size + 0) :: s.protectedPos)) =
      .ok ((), (s.setEv p (Ev.start k (some (s.events.size + 0 - p)))).ov (Ev.start SyntaxKind.TOMBSTONE none :: Ea) na sta sba
          (s.live + 1) ((s.events.size + 0) :: s.protectedPos)))
    (res : (CompletedMarker × BlockLike) × P)
    (hk : postfixExpr (f + 1) { pos := s.events.size + 0, kind := SyntaxKind.INDEX_EXPR } BlockLike.notBlock true
        ((s.setEv p (Ev.start k (some (s.events.size + 0 - p)))).ov
          (Ev.start SyntaxKind.INDEX_EXPR none :: (Ea ++ [Ev.finish])) na sta (sba + 1) s.live s.protectedPos) = .ok res) :
    postfixExpr (f + 2) ⟨p, kc⟩ bl true s = .ok res := by
  have hpre := precede_base s hnp p k kc fp0 hp
  have hcomp := fun E dp st sb lv pr i b kind =>
    complete_ov (s.setEv p (.start k (some (s.events.size + 0 - p)))) E dp st sb lv pr hnp i b kind
  simp only [setEv_size] at hcomp
  apply of_ov
  simp only [indexBaseKind, Bool.or_eq_true, beq_iff_eq] at hkc
  rcases hkc with ((h | h) | h) | h <;> subst h <;>
  (sym_eval [h0, hpre, hop, hcomp, setEv_size, setEv_kindAt, setEv_pos, setEv_npl, setEv_stepLimit,
    filter_base s hpr, contains_base s hpr, bne_self_eq_false, hk]; rfl)

/-- one iteration of `postfix_expr`: all the index operators after an identifier (INDEXED_IDENTIFIER) -/
theorem post_iter_idIdx (s : P) (hnp : s.noProgressLimit = 0) (hpr : ∀ p ∈ s.protectedPos, p < s.events.size)
    (p : Nat) (k : SyntaxKind) (fp0 : Option Nat) (hp : s.events[p]? = some (.start k fp0))
    (h0 : s.kindAt (s.pos + 0) = .L_BRACK) (f : Nat) (bl : BlockLike)
    (Ea : List Ev) (na sta sba : Nat)
    (hop : indexedIdentifierLoop f
        ((s.setEv p (Ev.start k (some (s.events.size + 0 - p)))).ov [Ev.start SyntaxKind.TOMBSTONE none] 0 s.steps
          (s.sinceBump + 1) (s.live + 1) ((s.events.size + 0) :: s.protectedPos)) =
      .ok ((), (s.setEv p (Ev.start k (some (s.events.size + 0 - p)))).ov (Ev.start SyntaxKind.TOMBSTONE none :: Ea) na sta sba
          (s.live + 1) ((s.events.size + 0) :: s.protectedPos)))
    (res : (CompletedMarker × BlockLike) × P)
    (hk : postfixExpr (f + 1) { pos := s.events.size + 0, kind := SyntaxKind.INDEXED_IDENTIFIER } BlockLike.notBlock true
        ((s.setEv p (Ev.start k (some (s.events.size + 0 - p)))).ov
          (Ev.start SyntaxKind.INDEXED_IDENTIFIER none :: (Ea ++ [Ev.finish])) na sta (sba + 1) s.live s.protectedPos) = .ok res) :
    postfixExpr (f + 2) ⟨p, .IDENTIFIER⟩ bl true s = .ok res := by
  have hpre := precede_base s hnp p k .IDENTIFIER fp0 hp
  have hcomp := fun E dp st sb lv pr i b kind =>
    complete_ov (s.setEv p (.start k (some (s.events.size + 0 - p)))) E dp st sb lv pr hnp i b kind
  simp only [setEv_size] at hcomp
  apply of_ov
  sym_eval [h0, hpre, hop, hcomp, setEv_size, setEv_kindAt, setEv_pos, setEv_npl, setEv_stepLimit,
    filter_base s hpr, contains_base s hpr, bne_self_eq_false, hk]
  rfl

/-- `postfix_expr` stops at a token that is not `(` or `[` -/
theorem post_stop (s : P) (E : List Ev) (dp st sb lv : Nat) (pr : List Nat) (f : Nat) (cm : CompletedMarker)
    (bl : BlockLike) (e1 : s.kindAt (s.pos + dp) ≠ .L_PAREN) (e2 : s.kindAt (s.pos + dp) ≠ .L_BRACK) :
    postfixExpr (f + 1) cm bl true (s.ov E dp st sb lv pr) = .ok ((cm, bl), s.ov E dp st sb lv pr) := by
  sym_eval [e1, e2]
  rfl

end Oq3.LangEv2
