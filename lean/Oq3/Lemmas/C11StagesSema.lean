/-
C11 (gates) — the include-aware analysis (`Includes.syntaxToSemanticInc` / `analyzeSource`) on a
program WITHOUT REAL INCLUDES is the single-file analysis (`Sema.syntaxToSemanticLoop` /
`Sema.analyzeWith`): same fuel, same outcome (context, panic, fuel), no error trees.
"Without real includes" = every top-level include statement that has a readable path names
`stdgates.inc` (`NoReal`; decidable form `C18.nonStd (includesOf (.clean ast)) = 0`).  An include
statement without a path panics in both runs at the same site.
-/
import Oq3.Props.C18Equiv
import Oq3.Props.C18

namespace Oq3.Stages
open Oq3 Oq3.Sema Oq3.Includes Oq3.C18E

/-- every top-level include with a path names `stdgates.inc` -/
def NoReal (l : List Ast.Stmt) : Prop :=
  ∀ sp f p, Ast.Stmt.includeStmt sp (some f) ∈ l → f.toString? = some p → p = "stdgates.inc"

theorem NoReal.tail {s : Ast.Stmt} {l : List Ast.Stmt} (h : NoReal (s :: l)) : NoReal l :=
  fun sp f p hm hf => h sp f p (List.mem_cons_of_mem _ hm) hf

/-- the decidable form: the include scan of the source-file layer finds no file to read -/
theorem noReal_of_nonStd (ast : Ast.Program)
    (h : Oq3.Props.C18.nonStd (includesOf (.clean ast)) = 0) : NoReal ast.statements := by
  intro sp f p hm hf
  unfold Oq3.Props.C18.nonStd at h
  have hnil := List.eq_nil_of_length_eq_zero h
  have hmem : some (some p) ∈ includesOf (.clean ast) := by
    unfold includesOf
    refine List.mem_filterMap.mpr ⟨_, hm, ?_⟩
    simp only [Option.map_some, hf]
  have := List.filter_eq_nil_iff.mp hnil _ hmem
  simpa using this

theorem throw_bind' {α β} (e : Sema.Outcome) (f : α → M β) : ((throw e : M α) >>= f) = throw e := by
  funext c; rfl

theorem fail_bind' {α β} (site : String) (f : α → M β) : ((Sema.fail site : M α) >>= f) = Sema.fail site := by
  funext c; rfl

/-- **the include-aware loop without real includes is the single-file loop** -/
theorem inc_eq_loop (fuel : Nat) : ∀ (l : List Ast.Stmt) (inc : List PSrc), NoReal l →
    syntaxToSemanticInc fuel l inc = (do syntaxToSemanticLoop fuel l; pure []) := by
  induction fuel with
  | zero =>
    intro l inc _
    unfold syntaxToSemanticInc syntaxToSemanticLoop
    rw [throw_bind']
  | succ k ih =>
    intro l inc h
    cases l with
    | nil =>
      unfold syntaxToSemanticInc syntaxToSemanticLoop
      rw [pure_bind]
    | cons s rest =>
      have other : NotInclude s →
          syntaxToSemanticInc (k + 1) (s :: rest) inc =
            (do syntaxToSemanticLoop (k + 1) (s :: rest); pure []) := by
        intro hni
        rw [inc_cons_other k s rest inc hni, C06.topLoop_cons_eq, topStmtM_other k s hni,
          ih rest inc h.tail]
        simp only [bind_assoc]
      cases s with
      | includeStmt sp file =>
        cases file with
        | none =>
          rw [C06.topLoop_cons_eq]
          conv => lhs; unfold syntaxToSemanticInc
          simp only [C06.topStmtM, unwrap, fail_bind']
        | some f =>
          cases hf : f.toString? with
          | none =>
            rw [C06.topLoop_cons_eq]
            conv => lhs; unfold syntaxToSemanticInc
            simp only [C06.topStmtM, unwrap, hf, pure_bind, fail_bind']
          | some p =>
            have hp : p = "stdgates.inc" := h sp f p (List.mem_cons_self ..) hf
            rw [inc_cons_std k sp f p hf (by simp [hp]) rest inc, C06.topLoop_cons_eq,
              ih rest inc h.tail]
            simp only [bind_assoc]
      | _ => exact other (fun _ _ e => by cases e)

/-- the include scan of the single-file entry (`Sema.syntaxToSemantic`) refuses nothing -/
theorem parseIncludedFiles_noReal (l : List Ast.Stmt) (h : NoReal l) (c : Ctx) :
    Sema.parseIncludedFiles l c = .ok (false, c) := by
  induction l with
  | nil => rfl
  | cons s rest ih =>
    have hr := ih h.tail
    cases s with
    | includeStmt sp file =>
      cases file with
      | none => simp only [Sema.parseIncludedFiles]; exact hr
      | some f =>
        cases hf : f.toString? with
        | none => simp only [Sema.parseIncludedFiles, hf]; exact hr
        | some p =>
          have hp : p = "stdgates.inc" := h sp f p (List.mem_cons_self ..) hf
          subst hp
          simp only [Sema.parseIncludedFiles, hf, bind_run, hr, bindRes, pure_run]
          simp
    | _ => simp only [Sema.parseIncludedFiles]; exact hr

/-- **`analyze_source` on a clean text without real includes is `Sema.analyzeWith`** (same fuel;
the included sources, none of which is consulted, do not matter as long as they are error free) -/
theorem analyzeSource_noReal (fuel : Nat) (ast : Ast.Program) (h : NoReal ast.statements) :
    analyzeSource fuel (.clean ast) [] = (Sema.analyzeWith fuel ast).map fun c => some (c, []) := by
  have hgate : haveSyntaxErrors (.mk "" (some (.clean ast)) none []) = false := by
    simp [haveSyntaxErrors, anyHaveSyntaxErrors]
  unfold analyzeSource Sema.analyzeWith Sema.syntaxToSemantic
  simp only [hgate, Bool.false_eq_true, if_false, StateT.run]
  rw [inc_eq_loop fuel _ _ h, bind_run, bind_run, parseIncludedFiles_noReal _ h]
  simp only [bindRes, Bool.false_eq_true, if_false]
  cases syntaxToSemanticLoop fuel ast.statements {} with
  | error e => rfl
  | ok r => rfl

end Oq3.Stages

