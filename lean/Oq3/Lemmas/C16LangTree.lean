/-
C16 for the inductive language of `Props/C04Lang2.lean`, part 2: the node sequence of every statement is
ONE balanced subtree, so that the children of the root of a program can be read off its step sequence.

* `splitTop` / `splitIn`: one pass over a step sequence that cuts it into the top-level subtrees
  (tokens and error steps outside a node are pieces of their own; an unmatched `exit` — the `exit`
  of the parent — ends the pass).  `children steps`: the pieces below the root node.
* `endsAt r d`: `r` is exactly the remainder of one subtree in which `d` further nodes are open;
  `isTree t`: `t = enter k :: r` with `endsAt r 0`.
* `isTree_nodesS2` (by mutual induction over the whole language): `isTree (nodesS2 s)` for EVERY
  statement `s` of `Stmt2` (no well-formedness needed: a fact about the node encoding).
* `splitTop_flatMap`: `splitTop (l.flatMap nodesS2 ++ exit :: rest) = l.map nodesS2`.
-/
import Oq3.Lemmas.LangEv2S
set_option linter.unusedSimpArgs false
set_option linter.unusedVariables false

namespace Oq3.C16Lang
open Oq3.Gen Oq3.Parser Oq3.PrattEv Oq3.LangEv Oq3.LangEv2

/-! ### cutting a step sequence into subtrees -/

mutual
/-- between two subtrees -/
def splitTop : List Step → List (List Step)
  | [] => []
  | .enter k :: r => splitIn r 0 [.enter k]
  | .exit :: _ => []
  | .token k n :: r => [.token k n] :: splitTop r
  | .error m :: r => [.error m] :: splitTop r
/-- inside a subtree: `d` further nodes are open, `acc` = the steps of the subtree so far -/
def splitIn : List Step → Nat → List Step → List (List Step)
  | [], _, _ => []
  | .enter k :: r, d, acc => splitIn r (d + 1) (acc ++ [.enter k])
  | .exit :: r, 0, acc => (acc ++ [.exit]) :: splitTop r
  | .exit :: r, d + 1, acc => splitIn r d (acc ++ [.exit])
  | .token k n :: r, d, acc => splitIn r d (acc ++ [.token k n])
  | .error m :: r, d, acc => splitIn r d (acc ++ [.error m])
end

/-- the subtrees (and stray tokens) directly below the root of a step sequence -/
def children : List Step → List (List Step)
  | .enter _ :: r => splitTop r
  | _ => []

/-- kind of the root of a subtree -/
def rootKind : List Step → Option SyntaxKind
  | .enter k :: _ => some k
  | _ => none

/-- number of input tokens below a step sequence -/
def width : List Step → Nat
  | [] => 0
  | .token _ n :: r => n + width r
  | _ :: r => width r

/-- `r` closes exactly one subtree in which `d` further nodes are open -/
def endsAt : List Step → Nat → Bool
  | [], _ => false
  | .enter _ :: r, d => endsAt r (d + 1)
  | .exit :: r, 0 => r.isEmpty
  | .exit :: r, d + 1 => endsAt r d
  | .token _ _ :: r, d => endsAt r d
  | .error _ :: r, d => endsAt r d

/-- the sequence is one subtree: `enter k`, balanced content, the matching `exit` -/
def isTree : List Step → Bool
  | .enter _ :: r => endsAt r 0
  | _ => false

theorem endsAt_append : ∀ (r0 : List Step) (e : Nat), endsAt r0 e = true →
    ∀ (r : List Step) (d : Nat), endsAt (r0 ++ r) (d + 1 + e) = endsAt r d
  | [], _, h, _, _ => by cases h
  | .enter k :: r0, e, h, r, d => by
    simp only [endsAt] at h
    have := endsAt_append r0 (e + 1) h r d
    rw [← Nat.add_assoc] at this
    simpa [endsAt] using this
  | .exit :: r0, 0, h, r, d => by
    simp only [endsAt, List.isEmpty_iff] at h
    subst h; simp [endsAt]
  | .exit :: r0, e + 1, h, r, d => by
    simp only [endsAt] at h
    have := endsAt_append r0 e h r d
    simpa [endsAt, ← Nat.add_assoc] using this
  | .token k n :: r0, e, h, r, d => by
    simp only [endsAt] at h
    simpa [endsAt] using endsAt_append r0 e h r d
  | .error m :: r0, e, h, r, d => by
    simp only [endsAt] at h
    simpa [endsAt] using endsAt_append r0 e h r d

/-- a subtree is passed over without changing the depth -/
theorem isTree_bal {t : List Step} (h : isTree t = true) (r : List Step) (d : Nat) :
    endsAt (t ++ r) d = endsAt r d := by
  match t, h with
  | .enter k :: r0, h =>
    simp only [isTree] at h
    simpa [endsAt] using endsAt_append r0 0 h r d

theorem splitIn_endsAt : ∀ (r : List Step) (d : Nat), endsAt r d = true →
    ∀ (rest acc : List Step), splitIn (r ++ rest) d acc = (acc ++ r) :: splitTop rest
  | [], _, h, _, _ => by cases h
  | .enter k :: r, d, h, rest, acc => by
    simp only [endsAt] at h
    have := splitIn_endsAt r (d + 1) h rest (acc ++ [.enter k])
    rw [List.append_assoc, List.singleton_append] at this
    simpa [splitIn] using this
  | .exit :: r, 0, h, rest, acc => by
    simp only [endsAt, List.isEmpty_iff] at h
    subst h; simp [splitIn]
  | .exit :: r, d + 1, h, rest, acc => by
    simp only [endsAt] at h
    have := splitIn_endsAt r d h rest (acc ++ [.exit])
    rw [List.append_assoc, List.singleton_append] at this
    simpa [splitIn] using this
  | .token k n :: r, d, h, rest, acc => by
    simp only [endsAt] at h
    have := splitIn_endsAt r d h rest (acc ++ [.token k n])
    rw [List.append_assoc, List.singleton_append] at this
    simpa [splitIn] using this
  | .error m :: r, d, h, rest, acc => by
    simp only [endsAt] at h
    have := splitIn_endsAt r d h rest (acc ++ [.error m])
    rw [List.append_assoc, List.singleton_append] at this
    simpa [splitIn] using this

/-- a subtree is cut off as one piece -/
theorem splitTop_tree {t : List Step} (h : isTree t = true) (rest : List Step) :
    splitTop (t ++ rest) = t :: splitTop rest := by
  match t, h with
  | .enter k :: r0, h =>
    simp only [isTree] at h
    simpa [splitTop] using splitIn_endsAt r0 0 h rest [.enter k]

/-- a sequence of subtrees is cut into exactly these subtrees, whatever follows -/
theorem splitTop_trees_append : ∀ (ts : List (List Step)), (∀ t ∈ ts, isTree t = true) → ∀ rest : List Step,
    splitTop (ts.flatten ++ rest) = ts ++ splitTop rest
  | [], _, _ => by simp
  | t :: ts, h, rest => by
    rw [List.flatten_cons, List.append_assoc, splitTop_tree (h t (List.mem_cons_self ..)),
      splitTop_trees_append ts (fun t' ht' => h t' (List.mem_cons_of_mem _ ht')) rest, List.cons_append]

/-- a sequence of subtrees followed by the `exit` of their parent is cut into exactly these subtrees -/
theorem splitTop_trees (ts : List (List Step)) (h : ∀ t ∈ ts, isTree t = true) (rest : List Step) :
    splitTop (ts.flatten ++ .exit :: rest) = ts := by
  rw [splitTop_trees_append ts h]; simp [splitTop]

theorem width_append (a b : List Step) : width (a ++ b) = width a + width b := by
  induction a with
  | nil => simp [width]
  | cons x a ih => cases x <;> simp [width, ih, Nat.add_assoc]

/-! ### the node sequences of the language are balanced -/

mutual
theorem balX : ∀ (x : X) (r : List Step) (d : Nat), endsAt (nodesX x ++ r) d = endsAt r d
  | .prim p, r, d => by simp [nodesX, balP p]
  | .bin o l x, r, d => by simp [nodesX, endsAt, balX l, balX x]
  | .pre o e, r, d => by simp [nodesX, endsAt, balX e]
theorem balP : ∀ (p : Prim) (r : List Step) (d : Nat), endsAt (LangEv2.nodesP p ++ r) d = endsAt r d
  | .id, _, _ => by simp [LangEv2.nodesP, endsAt]
  | .lit _, _, _ => by simp [LangEv2.nodesP, endsAt]
  | .timing _, _, _ => by simp [LangEv2.nodesP, endsAt]
  | .hw, _, _ => by simp [LangEv2.nodesP, endsAt]
  | .measureE, _, _ => by simp [LangEv2.nodesP, endsAt]
  | .measureHw, _, _ => by simp [LangEv2.nodesP, endsAt]
  | .measureIdx ixs, _, _ => by simp [LangEv2.nodesP, endsAt, balIdx ixs]
  | .paren e, _, _ => by simp [LangEv2.nodesP, endsAt, balX e]
  | .cast0 _ e, _, _ => by simp [LangEv2.nodesP, endsAt, balX e]
  | .castW _ w e, _, _ => by simp [LangEv2.nodesP, endsAt, balX e, balX w]
  | .idIdx ixs, _, _ => by simp [LangEv2.nodesP, endsAt, balIdx ixs]
  | .call p args, _, _ => by simp [LangEv2.nodesP, endsAt, balP p, balXs args]
  | .index p items, _, _ => by simp [LangEv2.nodesP, endsAt, balP p, balItems items]
theorem balXs : ∀ (xs : XList) (r : List Step) (d : Nat), endsAt (nodesXs xs ++ r) d = endsAt r d
  | .nil, _, _ => by simp [nodesXs]
  | .cons x .nil, _, _ => by simp [nodesXs, balX x]
  | .cons x (.cons y ys), _, _ => by simp [nodesXs, endsAt, balX x, balXs (.cons y ys)]
theorem balItem : ∀ (i : LangEv2.Item) (r : List Step) (d : Nat), endsAt (nodesItem i ++ r) d = endsAt r d
  | .ex x, _, _ => by simp [nodesItem, balX x]
  | .r2 lo hi, _, _ => by simp [nodesItem, endsAt, balX lo, balX hi]
  | .r3 lo mid hi, _, _ => by simp [nodesItem, endsAt, balX lo, balX mid, balX hi]
theorem balItems : ∀ (is : ItemList) (r : List Step) (d : Nat), endsAt (nodesItems is ++ r) d = endsAt r d
  | .one i, _, _ => by simp [nodesItems, balItem i]
  | .cons i is, _, _ => by simp [nodesItems, endsAt, balItem i, balItems is]
theorem balIdx : ∀ (ixs : IdxList) (r : List Step) (d : Nat), endsAt (nodesIdx ixs ++ r) d = endsAt r d
  | .one is, _, _ => by simp [nodesIdx, endsAt, balItems is]
  | .cons is rest, _, _ => by simp [nodesIdx, endsAt, balItems is, balIdx rest]
end

theorem balQ : ∀ (q : Q) (r : List Step) (d : Nat), endsAt (nodesQ q ++ r) d = endsAt r d
  | .id, _, _ => by simp [nodesQ, endsAt]
  | .hw, _, _ => by simp [nodesQ, endsAt]
  | .idx ixs, _, _ => by simp [nodesQ, endsAt, balIdx]

theorem balQs : ∀ (qs : QList) (r : List Step) (d : Nat), endsAt (nodesQs qs ++ r) d = endsAt r d
  | .one q, _, _ => by simp [nodesQs, balQ]
  | .cons q qs, _, _ => by simp [nodesQs, endsAt, balQ, balQs qs]

theorem balParen (e : X) (r : List Step) (d : Nat) : endsAt (parenNodes e ++ r) d = endsAt r d := by
  simp [parenNodes, endsAt, balX]

theorem balMod (m : Mod) (r : List Step) (d : Nat) : endsAt (nodesMod m ++ r) d = endsAt r d := by
  cases m with
  | inv => simp [nodesMod, endsAt]
  | pow e => simp [nodesMod, endsAt, balParen]
  | ctrl e => cases e <;> simp [nodesMod, endsAt, balParen]
  | negctrl e => cases e <;> simp [nodesMod, endsAt, balParen]

theorem balMods : ∀ (ms : List Mod) (r : List Step) (d : Nat), endsAt (nodesMods ms ++ r) d = endsAt r d
  | [], _, _ => by simp [nodesMods]
  | m :: ms, _, _ => by simp [nodesMods, balMod, balMods ms]

theorem balTyX (ty : Ty) (w : Option X) (r : List Step) (d : Nat) : endsAt (tyNodesX ty w ++ r) d = endsAt r d := by
  cases w <;> simp [tyNodesX, endsAt, balX]

theorem balDesig (w : X) (r : List Step) (d : Nat) : endsAt (desigNodes w ++ r) d = endsAt r d := by
  simp [desigNodes, endsAt, balX]

theorem balArgList (args : XList) (r : List Step) (d : Nat) : endsAt (argListNodes args ++ r) d = endsAt r d := by
  cases args <;> simp [argListNodes, endsAt, balXs]

theorem balQlist (qs : QList) (r : List Step) (d : Nat) : endsAt (qlistNodes qs ++ r) d = endsAt r d := by
  simp [qlistNodes, endsAt, balQs]

theorem balName (r : List Step) (d : Nat) : endsAt (nameNodes ++ r) d = endsAt r d := by
  simp [nameNodes, endsAt]

theorem balIter (it : Iter) (r : List Step) (d : Nat) : endsAt (iterNodes it ++ r) d = endsAt r d := by
  cases it <;> simp [iterNodes, endsAt, balX, balItems]

theorem balTyList : ∀ (ts : List Ty) (r : List Step) (d : Nat), endsAt (tyListNodes ts ++ r) d = endsAt r d
  | [], _, _ => by simp [tyListNodes]
  | [t], _, _ => by simp [tyListNodes, endsAt]
  | t :: u :: us, _, _ => by simp [tyListNodes, endsAt, balTyList (u :: us)]

theorem balParams : ∀ (n : Nat) (r : List Step) (d : Nat), endsAt (paramNodes n ++ r) d = endsAt r d
  | 0, _, _ => by simp [paramNodes, endsAt]
  | n + 1, _, _ => by simp [paramNodes, endsAt, balParams n]

theorem balTyped : ∀ (ps : List PTy) (r : List Step) (d : Nat), endsAt (typedNodes ps ++ r) d = endsAt r d
  | [], _, _ => by simp [typedNodes]
  | [p], _, _ => by simp [typedNodes, endsAt]
  | p :: q :: ps, _, _ => by simp [typedNodes, endsAt, balTyped (q :: ps)]

theorem balRet (ret : Option Ty) (r : List Step) (d : Nat) : endsAt (retNodes ret ++ r) d = endsAt r d := by
  cases ret <;> simp [retNodes, endsAt]

theorem balGateInner (args : XList) (qs : QList) (r : List Step) (d : Nat) :
    endsAt (gateCallInnerNodes args qs ++ r) (d + 1) = endsAt r d := by
  simp [gateCallInnerNodes, endsAt, balArgList, balQlist]

theorem balBlock (inner : List Step) (h : ∀ r d, endsAt (inner ++ r) d = endsAt r d) (r : List Step) (d : Nat) :
    endsAt (blockNodes inner ++ r) d = endsAt r d := by
  simp [blockNodes, endsAt, h]

mutual
/-- **the node sequence of every statement is one subtree** -/
theorem isTree_nodesS2 : ∀ st : Stmt2, isTree (nodesS2 st) = true
  | .decl cst ty w none => by cases cst <;> simp [nodesS2, isTree, endsAt, balTyX, balName]
  | .decl cst ty w (some e) => by cases cst <;> simp [nodesS2, isTree, endsAt, balTyX, balName, balX]
  | .io out ty w => by simp [nodesS2, isTree, endsAt, balTyX, balName]
  | .qubit none => by simp [nodesS2, isTree, endsAt, balName]
  | .qubit (some w) => by simp [nodesS2, isTree, endsAt, balName, balDesig]
  | .oldReg c items => by simp [nodesS2, isTree, endsAt, balItems]
  | .letS e => by simp [nodesS2, isTree, endsAt, balX]
  | .alias e => by simp [nodesS2, isTree, endsAt, balX, balName]
  | .assign ixs rhs => by simp [nodesS2, isTree, endsAt, balX, balP]
  | .exprS x => by simp [nodesS2, isTree, endsAt, balX]
  | .gate args qs => by simp [nodesS2, wrapNodes, isTree, endsAt, balGateInner]
  | .modGate m ms args qs => by simp [nodesS2, wrapNodes, isTree, endsAt, balGateInner, balMods]
  | .gphase x => by simp [nodesS2, wrapNodes, isTree, endsAt, balX]
  | .modGphase m ms x => by simp [nodesS2, wrapNodes, isTree, endsAt, balX, balMods]
  | .reset q => by simp [nodesS2, isTree, endsAt, balQ]
  | .barrier qs => by simp [nodesS2, isTree, endsAt, balQlist]
  | .delay d qs => by simp [nodesS2, isTree, endsAt, balQlist, balDesig]
  | .brk => rfl
  | .cont => rfl
  | .endS => rfl
  | .pragma => rfl
  | .annot => rfl
  | .incl => rfl
  | .version => rfl
  | .externS tys ret => by simp [nodesS2, isTree, endsAt, balName, balTyList, balRet]
  | .ifS c thn => by simp [nodesS2, isTree, endsAt, balX, balB thn]
  | .ifElse c thn els => by simp [nodesS2, isTree, endsAt, balX, balB thn, balB els]
  | .whileS c body => by simp [nodesS2, isTree, endsAt, balX, balB body]
  | .forS ty w it body => by simp [nodesS2, isTree, endsAt, balTyX, balName, balIter, balB body]
  | .switchS c cs => by simp [nodesS2, isTree, endsAt, balX, balC cs]
  | .block ss => by simp [nodesS2, isTree, endsAt, balBlock _ (balL2 ss)]
  | .gateDef none nq body => by simp [nodesS2, isTree, endsAt, balParams, balBlock _ (balL2 body)]
  | .gateDef (some k) nq body => by simp [nodesS2, isTree, endsAt, balParams, balBlock _ (balL2 body)]
  | .defS ps ret body => by simp [nodesS2, isTree, endsAt, balTyped, balRet, balBlock _ (balL2 body)]
  | .cal body => by simp [nodesS2, isTree, endsAt, balBlock _ (balL2 body)]
  | .ret none => rfl
  | .ret (some e) => by simp [nodesS2, wrapNodes, isTree, endsAt, balX]
theorem balB : ∀ (b : Body) (r : List Step) (d : Nat), endsAt (nodesB b ++ r) d = endsAt r d
  | .blk ss, r, d => by simp [nodesB, balBlock _ (balL2 ss)]
  | .one s, r, d => by simp [nodesB, isTree_bal (isTree_nodesS2 s)]
theorem balC : ∀ (cs : Cases) (r : List Step) (d : Nat), endsAt (nodesC cs ++ r) d = endsAt r d
  | .nil, _, _ => by simp [nodesC]
  | .dflt body, _, _ => by simp [nodesC, endsAt, balBlock _ (balL2 body)]
  | .cons vals body rest, _, _ => by simp [nodesC, endsAt, balItems, balBlock _ (balL2 body), balC rest]
theorem balL2 : ∀ (ss : Stmts2) (r : List Step) (d : Nat), endsAt (nodesL2 ss ++ r) d = endsAt r d
  | .nil, _, _ => by simp [nodesL2]
  | .cons st ss, _, _ => by simp [nodesL2, isTree_bal (isTree_nodesS2 st), balL2 ss]
end

theorem isTree_map_nodesS2 (l : List Stmt2) : ∀ t ∈ l.map nodesS2, isTree t = true := fun t ht => by
  obtain ⟨s, -, rfl⟩ := List.mem_map.1 ht
  exact isTree_nodesS2 s

/-- the node sequences of a list of statements are cut into exactly the node sequences of the statements -/
theorem splitTop_flatMap_append (l : List Stmt2) (rest : List Step) :
    splitTop (l.flatMap nodesS2 ++ rest) = l.map nodesS2 ++ splitTop rest := by
  rw [List.flatMap_def]
  exact splitTop_trees_append (l.map nodesS2) (isTree_map_nodesS2 l) rest

/-- the steps below the root of a program are cut into exactly the node sequences of its statements -/
theorem splitTop_flatMap (l : List Stmt2) (rest : List Step) :
    splitTop (l.flatMap nodesS2 ++ .exit :: rest) = l.map nodesS2 := by
  rw [List.flatMap_def]
  exact splitTop_trees (l.map nodesS2) (isTree_map_nodesS2 l) rest

/-- the root kind of the subtree of a statement -/
theorem rootKind_isSome {t : List Step} (h : isTree t = true) : (rootKind t).isSome = true := by
  match t, h with
  | .enter k :: r, _ => rfl

end Oq3.C16Lang
