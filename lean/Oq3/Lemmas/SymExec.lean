/-
Symbolic execution of the grammar model from an ARBITRARY start state.

`s.ov E dp st sb lv pr` is the base state `s` overlaid with a concrete run: events `E` pushed on
top of `s.events`, `dp` tokens consumed, and concrete values for the bookkeeping fields.  Every
API primitive maps overlay states to overlay states (`*_ov`, closed forms derived from
`Oq3/Lemmas/Run.lean`), so a run of a grammar function on a state whose next tokens are known is
computed by rewriting — no induction, no assumption on `s` beyond `Ready s`.
-/
import Lean
import Oq3.Lemmas.Run
set_option linter.unusedSimpArgs false

namespace Oq3.Parser
open Oq3.Gen

/-- `s` overlaid with a concrete run -/
def P.ov (s : P) (E : List Ev) (dp st sb lv : Nat) (pr : List Nat) : P :=
  { s with events := s.events ++ E.toArray, pos := s.pos + dp, steps := st, sinceBump := sb,
           live := lv, protectedPos := pr }

theorem P.ov_base (s : P) : s.ov [] 0 s.steps s.sinceBump s.live s.protectedPos = s := by
  simp [P.ov]

/-- what an acceptance lemma needs from its start state: the no-progress hook is off (it cannot
trip on a run that consumes tokens anyway), the step counter has room for a few look-aheads, and
the ghost list of protected marker positions only mentions existing events -/
structure Ready (s : P) : Prop where
  hook : s.noProgressLimit = 0
  steps : s.steps + 8 ≤ s.stepLimit
  prot : ∀ p ∈ s.protectedPos, p < s.events.size

/-! ### head-first evaluation of `>>=`

`(x >>= f) s` is rewritten to `bindRes (x s) f`, which exposes the continuation only once `x s`
has been computed to a value; rewriting therefore never enters the continuation with a symbolic
intermediate state (which would unfold the whole grammar). -/

def bindRes {α β} (r : Except Outcome (α × P)) (f : α → G β) : Except Outcome (β × P) :=
  match r with
  | .ok (a, s1) => f a s1
  | .error e => .error e

theorem bindRes_ok {α β} (a : α) (s1 : P) (f : α → G β) : bindRes (.ok (a, s1)) f = f a s1 := rfl
theorem bindRes_error {α β} (e : Outcome) (f : α → G β) :
    bindRes (.error e : Except Outcome (α × P)) f = .error e := rfl

/-- rewriting evaluates the scrutinee only; the continuation is left alone -/
@[congr] theorem bindRes_congr {α β} {r r' : Except Outcome (α × P)} (h : r = r') (f : α → G β) :
    bindRes r f = bindRes r' f := by rw [h]

/-- `if` on a parser computation applied to a state: only the condition is rewritten -/
def iteRes {α} (c : Prop) [Decidable c] (x y : G α) (s : P) : Except Outcome (α × P) :=
  if c then x s else y s

@[congr] theorem iteRes_congr {α} {c c' : Prop} [Decidable c] [Decidable c'] (h : c = c') (x y : G α) (s : P) :
    iteRes c x y s = iteRes c' x y s := by
  subst h
  unfold iteRes
  split <;> rfl

theorem iteRes_true {α} (x y : G α) (s : P) : iteRes True x y s = x s := rfl
theorem iteRes_false {α} (x y : G α) (s : P) : iteRes False x y s = y s := rfl

theorem G.ite_res {α} (c : Prop) [Decidable c] (x y : G α) (s : P) :
    (if c then x else y) s = iteRes c x y s := by
  unfold iteRes; split <;> rfl

theorem G.bind_res {α β} (x : G α) (f : α → G β) (s : P) : (x >>= f) s = bindRes (x s) f := by
  rw [G.bind_apply]; rfl

theorem G.andM_res (x y : G Bool) (s : P) :
    (x <&&> y) s = bindRes (x s) (fun b => if b = true then y else pure false) := by
  rw [G.andM_apply]
  cases x s with
  | error e => rfl
  | ok p => obtain ⟨b, s1⟩ := p; cases b <;> rfl

theorem G.orM_res (x y : G Bool) (s : P) :
    (x <||> y) s = bindRes (x s) (fun b => if b = true then pure true else y) := by
  rw [G.orM_apply]
  cases x s with
  | error e => rfl
  | ok p => obtain ⟨b, s1⟩ := p; cases b <;> rfl

theorem G.notM_res (x : G Bool) (s : P) :
    (notM x) s = bindRes (x s) (fun b => pure (!b)) := by
  rw [G.notM_apply]
  cases x s with
  | error e => rfl
  | ok p => rfl

/-! ### array facts -/

theorem ov_push (a : Array Ev) (E : List Ev) (e : Ev) :
    (a ++ E.toArray).push e = a ++ (E ++ [e]).toArray := by
  apply Array.ext'; simp

theorem ov_size (a : Array Ev) (E : List Ev) : (a ++ E.toArray).size = a.size + E.length := by simp

theorem ov_get (a : Array Ev) (E : List Ev) (i : Nat) : (a ++ E.toArray)[a.size + i]? = E[i]? := by
  rw [Array.getElem?_append_right (Nat.le_add_right _ _)]
  simp

theorem ov_set (a : Array Ev) (E : List Ev) (i : Nat) (x : Ev) :
    (a ++ E.toArray).set! (a.size + i) x = a ++ (E.set i x).toArray := by
  apply Array.ext'
  simp [Array.set!, List.set_append_right]

theorem ov_pop (a : Array Ev) (E : List Ev) (h : E ≠ []) :
    (a ++ E.toArray).pop = a ++ E.dropLast.toArray := by
  apply Array.ext'
  simp [List.dropLast_append_of_ne_nil h]

theorem ov_back (a : Array Ev) (E : List Ev) (h : E ≠ []) :
    (a ++ E.toArray).back? = E.getLast? := by
  simp [Array.back?_eq_getElem?, List.getLast?_eq_getElem?, h]
  rw [show a.size + E.length - 1 = a.size + (E.length - 1) by
    have : 0 < E.length := List.length_pos_iff.mpr h
    omega]
  rw [Array.getElem?_append_right (Nat.le_add_right _ _)]
  simp

/-! ### primitives on overlay states -/

section
variable (s : P) (E : List Ev) (dp st sb lv : Nat) (pr : List Nat)

theorem hookTrip_ov (hnp : s.noProgressLimit = 0) : (s.ov E dp st sb lv pr).hookTrip = false := by
  simp [P.hookTrip, P.ov, hnp]

theorem kindAt_ov (i : Nat) : (s.ov E dp st sb lv pr).kindAt i = s.kindAt i := rfl

theorem current_ov : current (s.ov E dp st sb lv pr) = .ok (s.kindAt (s.pos + dp), s.ov E dp st sb lv pr) := rfl

theorem nth_ov (n : Nat) (hn : n ≤ 3) (hst : st ≤ s.stepLimit) :
    nth n (s.ov E dp st sb lv pr) = .ok (s.kindAt (s.pos + (dp + n)), s.ov E dp (st + 1) sb lv pr) := by
  rw [nth_eq]
  have h1 : ¬ n > 3 := by omega
  have h2 : ¬ (s.ov E dp st sb lv pr).steps > (s.ov E dp st sb lv pr).stepLimit := by
    show ¬ st > s.stepLimit; omega
  simp only [h1, h2, if_false]
  rw [show s.pos + (dp + n) = s.pos + dp + n by omega]
  rfl

theorem at_ov (k : SyntaxKind) (hc : compositePieces k = none) :
    at' k (s.ov E dp st sb lv pr) = .ok (s.kindAt (s.pos + dp) == k, s.ov E dp st sb lv pr) := by
  rw [at_simple_eq k hc]; rfl

theorem at_comp2_ov (k k1 k2 : SyntaxKind) (hc : compositePieces k = some [k1, k2]) :
    at' k (s.ov E dp st sb lv pr) =
      if (s.kindAt (s.pos + dp) == k1 && s.kindAt (s.pos + (dp + 1)) == k2) = true then
        (s.ov E dp st sb lv pr).jointRes (s.pos + dp)
      else .ok (false, s.ov E dp st sb lv pr) := by
  rw [at_comp2_eq k k1 k2 hc]
  rw [show s.pos + (dp + 1) = s.pos + dp + 1 by omega]
  rfl

theorem at_comp3_false_ov (k k1 k2 k3 : SyntaxKind) (hc : compositePieces k = some [k1, k2, k3])
    (h : (s.kindAt (s.pos + dp) == k1 && s.kindAt (s.pos + (dp + 1)) == k2) = false) :
    at' k (s.ov E dp st sb lv pr) = .ok (false, s.ov E dp st sb lv pr) := by
  rw [at_comp3_eq k k1 k2 k3 hc]
  rw [show s.pos + (dp + 1) = s.pos + dp + 1 by omega] at h
  have : ((s.ov E dp st sb lv pr).kindAt (s.ov E dp st sb lv pr).pos == k1 &&
      (s.ov E dp st sb lv pr).kindAt ((s.ov E dp st sb lv pr).pos + 1) == k2) = false := h
  simp only [this, Bool.false_and, Bool.false_eq_true, if_false]

theorem at_comp3_ov (k k1 k2 k3 : SyntaxKind) (hc : compositePieces k = some [k1, k2, k3]) :
    at' k (s.ov E dp st sb lv pr) =
      if (s.kindAt (s.pos + dp) == k1 && s.kindAt (s.pos + (dp + 1)) == k2 &&
          s.kindAt (s.pos + (dp + 2)) == k3) = true then
        match (s.ov E dp st sb lv pr).isJoint (s.pos + dp) with
        | .ok false => .ok (false, s.ov E dp st sb lv pr)
        | .ok true => (s.ov E dp st sb lv pr).jointRes (s.pos + dp + 1)
        | .error e => .error e
      else .ok (false, s.ov E dp st sb lv pr) := by
  rw [at_comp3_eq k k1 k2 k3 hc]
  rw [show s.pos + (dp + 1) = s.pos + dp + 1 by omega, show s.pos + (dp + 2) = s.pos + dp + 2 by omega]
  rfl

theorem atTs_ov (ts : TokenSet) :
    atTs ts (s.ov E dp st sb lv pr) =
      .ok (decide ((s.kindAt (s.pos + dp)).toNat < 128) && ts.contains (s.kindAt (s.pos + dp)),
        s.ov E dp st sb lv pr) := by
  rw [atTs_eq]; rfl

theorem pushEvent_ov (hnp : s.noProgressLimit = 0) (e : Ev) :
    pushEvent e (s.ov E dp st sb lv pr) = .ok ((), s.ov (E ++ [e]) dp st (sb + 1) lv pr) := by
  rw [pushEvent_eq, hookTrip_ov s E dp st sb lv pr hnp]
  simp only [Bool.false_eq_true, if_false, P.ov, ov_push]

theorem error_ov (hnp : s.noProgressLimit = 0) (msg : String) :
    error msg (s.ov E dp st sb lv pr) = .ok ((), s.ov (E ++ [.error msg]) dp st (sb + 1) lv pr) :=
  pushEvent_ov s E dp st sb lv pr hnp _

theorem start_ov (hnp : s.noProgressLimit = 0) :
    start (s.ov E dp st sb lv pr) =
      .ok ({ pos := s.events.size + E.length }, s.ov (E ++ [.start .TOMBSTONE none]) dp st (sb + 1) (lv + 1) pr) := by
  rw [start_eq, hookTrip_ov s E dp st sb lv pr hnp]
  simp only [Bool.false_eq_true, if_false, P.ov, ov_push, ov_size, Ev.tombstone]

theorem doBump_ov (k : SyntaxKind) (n : Nat) :
    doBump k n (s.ov E dp st sb lv pr) = .ok ((), s.ov (E ++ [.token k n]) (dp + n) 0 1 lv pr) := by
  rw [doBump_eq]
  simp only [P.ov, ov_push, Nat.add_assoc]

theorem eat_ov (k : SyntaxKind) (hc : compositePieces k = none) (hk : (k == .EOF) = false) :
    eat k (s.ov E dp st sb lv pr) =
      if (s.kindAt (s.pos + dp) == k) = true then
        .ok (true, s.ov (E ++ [.token k 1]) (dp + 1) 0 1 lv pr)
      else .ok (false, s.ov E dp st sb lv pr) := by
  rw [eat_simple_eq k hc hk]
  show (if (s.kindAt (s.pos + dp) == k) = true then _ else _) = _
  split
  · simp only [P.ov, ov_push, Nat.add_assoc]
  · rfl

theorem bump_ov (k : SyntaxKind) (hc : compositePieces k = none) (hk : (k == .EOF) = false) :
    bump k (s.ov E dp st sb lv pr) =
      if (s.kindAt (s.pos + dp) == k) = true then
        .ok ((), s.ov (E ++ [.token k 1]) (dp + 1) 0 1 lv pr)
      else .error (.panic "Parser::bump assertion") := by
  rw [bump_simple_eq k hc hk]
  show (if (s.kindAt (s.pos + dp) == k) = true then _ else _) = _
  split
  · simp only [P.ov, ov_push, Nat.add_assoc]
  · rfl

theorem bumpAny_ov :
    bumpAny (s.ov E dp st sb lv pr) =
      if (s.kindAt (s.pos + dp) == .EOF) = true then .ok ((), s.ov E dp st sb lv pr)
      else .ok ((), s.ov (E ++ [.token (s.kindAt (s.pos + dp)) 1]) (dp + 1) 0 1 lv pr) := by
  rw [bumpAny_eq]
  show (if (s.kindAt (s.pos + dp) == .EOF) = true then _ else _) = _
  split
  · rfl
  · simp only [P.ov, ov_push, Nat.add_assoc, P.kindAt]

theorem expect_ov (hnp : s.noProgressLimit = 0) (k : SyntaxKind) (hc : compositePieces k = none)
    (hk : (k == .EOF) = false) :
    expect k (s.ov E dp st sb lv pr) =
      if (s.kindAt (s.pos + dp) == k) = true then
        .ok (true, s.ov (E ++ [.token k 1]) (dp + 1) 0 1 lv pr)
      else .ok (false, s.ov (E ++ [.error s!"expected {dbg k}"]) dp st (sb + 1) lv pr) := by
  rw [expect_simple_eq k hc hk, hookTrip_ov s E dp st sb lv pr hnp]
  show (if (s.kindAt (s.pos + dp) == k) = true then _ else _) = _
  split
  · simp only [P.ov, ov_push, Nat.add_assoc]
  · simp only [Bool.false_eq_true, if_false, P.ov, ov_push]

theorem complete_ov (hnp : s.noProgressLimit = 0) (i : Nat) (b : Bool) (kind : SyntaxKind) :
    Marker.complete { pos := s.events.size + i, isFp := b } kind (s.ov E dp st sb lv pr) =
      match E[i]? with
      | some (.start k0 fp) =>
        if (k0 != .TOMBSTONE) = true then .error (.modelError "Marker::complete: marker already completed")
        else if (kind == .TOMBSTONE) = true then .error (.modelError "Marker::complete with TOMBSTONE")
        else .ok (⟨s.events.size + i, kind⟩,
          s.ov ((E.set i (.start kind fp)) ++ [.finish]) dp st (sb + 1) (lv - 1)
            (pr.filter (· != s.events.size + i)))
      | _ => .error (.panic "Marker::complete unreachable") := by
  rw [complete_eq, hookTrip_ov s E dp st sb lv pr hnp]
  show (match (s.events ++ E.toArray)[s.events.size + i]? with | some (.start k0 fp) => _ | _ => _) = _
  rw [ov_get]
  cases E[i]? with
  | none => rfl
  | some e =>
    cases e with
    | finish => rfl
    | token _ _ => rfl
    | error _ => rfl
    | start k0 fp =>
      simp only [Bool.false_eq_true, if_false, P.slotSet, P.ov, ov_set, ov_push]

theorem abandon_ov (i : Nat) (hE : E ≠ []) :
    Marker.abandon { pos := s.events.size + i, isFp := false } (s.ov E dp st sb lv pr) =
      if (pr.contains (s.events.size + i)) = true then
        .error (.modelError "Marker::abandon of a forward-parent marker")
      else if (i + 1 == E.length) = true then
        match E.getLast? with
        | some (.start k fp) =>
          if (k == .TOMBSTONE && fp.isNone) = true then .ok ((), s.ov E.dropLast dp st sb (lv - 1) pr)
          else .error (.panic "Marker::abandon unreachable")
        | _ => .error (.panic "Marker::abandon unreachable")
      else .ok ((), s.ov E dp st sb (lv - 1) pr) := by
  rw [abandon_eq]
  have hlen : 0 < E.length := List.length_pos_iff.mpr hE
  have hsz : ((s.ov E dp st sb lv pr).events.size == 0) = false := by
    simp only [P.ov, ov_size, beq_eq_false_iff_ne, ne_eq]; omega
  have hpos : ((s.events.size + i) == (s.ov E dp st sb lv pr).events.size - 1) = (i + 1 == E.length) := by
    simp only [P.ov, ov_size]
    rw [Bool.eq_iff_iff]
    simp only [beq_iff_eq]
    omega
  simp only [Bool.false_or, hsz, Bool.false_eq_true, if_false, hpos]
  show (if (pr.contains (s.events.size + i)) = true then _ else _) = _
  split
  · rfl
  · split
    · show (match (s.events ++ E.toArray).back? with | some (.start k fp) => _ | _ => _) = _
      rw [ov_back _ _ hE]
      cases E.getLast? with
      | none => rfl
      | some e =>
        cases e with
        | finish => rfl
        | token _ _ => rfl
        | error _ => rfl
        | start k fp =>
          simp only
          split
          · simp only [P.ov, ov_pop _ _ hE]
          · rfl
    · rfl

theorem precede_ov (hnp : s.noProgressLimit = 0) (i : Nat) (k : SyntaxKind) (hi : i ≤ E.length) :
    CompletedMarker.precede ⟨s.events.size + i, k⟩ (s.ov E dp st sb lv pr) =
      match (E ++ [Ev.start .TOMBSTONE none])[i]? with
      | some (.start k0 _) =>
        .ok ({ pos := s.events.size + E.length, isFp := true },
          s.ov ((E ++ [Ev.start .TOMBSTONE none]).set i (.start k0 (some (E.length - i)))) dp st (sb + 1) (lv + 1)
            ((s.events.size + E.length) :: pr))
      | _ => .error (.panic "CompletedMarker::precede unreachable") := by
  rw [precede_eq, hookTrip_ov s E dp st sb lv pr hnp]
  simp only [Bool.false_eq_true, if_false]
  show (match ((s.events ++ E.toArray).push (Ev.start .TOMBSTONE none))[s.events.size + i]? with
    | some (.start k0 _) => _ | _ => _) = _
  rw [ov_push, ov_get]
  cases (E ++ [Ev.start .TOMBSTONE none])[i]? with
  | none => rfl
  | some e =>
    cases e with
    | finish => rfl
    | token _ _ => rfl
    | error _ => rfl
    | start k0 fp =>
      have h1 : ¬ ((s.ov E dp st sb lv pr).events.size < s.events.size + i) := by
        simp only [P.ov, ov_size]; omega
      have h2 : (s.ov E dp st sb lv pr).events.size - (s.events.size + i) = E.length - i := by
        simp only [P.ov, ov_size]; omega
      simp only [h1, if_false, h2]
      simp only [P.started, P.ov, ov_push, ov_set, ov_size, Ev.tombstone]

theorem extendTo_ov (i j : Nat) (k : SyntaxKind) (b : Bool) (hji : j ≤ i) :
    CompletedMarker.extendTo ⟨s.events.size + i, k⟩ { pos := s.events.size + j, isFp := b }
        (s.ov E dp st sb lv pr) =
      match E[j]? with
      | some (.start kj _) =>
        match E[i]? with
        | some (.start k' _) =>
          if (k' == .TOMBSTONE) = true then
            .error (.modelError "CompletedMarker::extend_to: not a completed marker")
          else .ok (⟨s.events.size + i, k⟩,
            s.ov (E.set j (.start kj (some (i - j)))) dp st sb (lv - 1) pr)
        | _ => .error (.modelError "CompletedMarker::extend_to: not a completed marker")
      | _ => .error (.panic "CompletedMarker::extend_to unreachable") := by
  rw [extendTo_eq]
  show (match (s.events ++ E.toArray)[s.events.size + j]? with | some (.start kj _) => _ | _ => _) = _
  rw [ov_get]
  cases E[j]? with
  | none => rfl
  | some e =>
    cases e with
    | finish => rfl
    | token _ _ => rfl
    | error _ => rfl
    | start kj fpj =>
      have h1 : ¬ (s.events.size + i < s.events.size + j) := by omega
      simp only [h1, if_false]
      show (match (s.events ++ E.toArray)[s.events.size + i]? with | some (.start k' _) => _ | _ => _) = _
      rw [ov_get]
      cases E[i]? with
      | none => rfl
      | some e2 =>
        cases e2 with
        | finish => rfl
        | token _ _ => rfl
        | error _ => rfl
        | start k' fp' =>
          simp only
          split
          · rfl
          · have h2 : s.events.size + i - (s.events.size + j) = i - j := by omega
            simp only [h2, P.ov, ov_set]

end

/-! ### the ghost list of protected positions -/

theorem filter_base (s : P) (hp : ∀ p ∈ s.protectedPos, p < s.events.size) (i : Nat) :
    s.protectedPos.filter (· != s.events.size + i) = s.protectedPos := by
  rw [List.filter_eq_self]
  intro p hpm
  have := hp p hpm
  simp only [bne_iff_ne, ne_eq]; omega

theorem contains_base (s : P) (hp : ∀ p ∈ s.protectedPos, p < s.events.size) (i : Nat) :
    s.protectedPos.contains (s.events.size + i) = false := by
  rw [List.contains_eq_mem]
  simp only [decide_eq_false_iff_not]
  intro hm
  have := hp _ hm
  omega

end Oq3.Parser
