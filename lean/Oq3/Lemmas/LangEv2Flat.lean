/-
C04, extended reference language, part 8: the flat statements of `Stmt2` that the dispatcher `opt_item`
(or the keyword tests of `stmt`) parses: declarations, `let`, `reset`, `barrier`, `delay`, `break` / `continue` /
`end`, pragma / annotation lines, `include`, the version line, `extern`.
-/
import Oq3.Lemmas.LangEv2Stmt
set_option linter.unusedSimpArgs false
set_option linter.unusedVariables false

namespace Oq3.LangEv2
open Oq3.Gen Oq3.Parser Oq3.Grammar Oq3.SymExec Oq3.PrattEv Oq3.LangEv
open Oq3.Gen.Ops (Assoc)

theorem tyNext (ty : Ty) (w : Option X) (s : P) (q : Nat) (htt : Toks s q (tyToksX ty w)) (k : SyntaxKind) (hk : k ≠ .L_PAREN)
    (hid : s.kindAt (q + (tyToksX ty w).length) = k) : s.kindAt (q + 1) ≠ .L_PAREN := by
  cases w with
  | none => simp only [tyToksX, List.length_cons, List.length_nil] at hid; rw [hid]; exact hk
  | some e => simp only [tyToksX, Toks, tk] at htt; rw [htt.2.2.1]; decide

/-- `ty x ;` / `ty[w] x ;` -/
theorem stmt_decl_none2 (ty : Ty) (w : Option X) (F : Nat) (s : P) (hr : RdyL 8 s)
    (hF : optFuel w + 8 ≤ F) (hwide : w.isSome = true → ty.wide = true) (hc : WidthOK w)
    (htk : Toks s s.pos (toksS2 (.decl false ty w none))) :
    Acc (stmt F) s (toksS2 (.decl false ty w none)).length (evsS2 (.decl false ty w none)) := by
  obtain ⟨g, rfl⟩ : ∃ g, F = g + 4 + 4 := ⟨F - 8, by omega⟩
  simp only [toksS2, Bool.false_eq_true, if_false, List.nil_append, Toks, Toks_append, tk, List.length_cons, List.length_append, List.length_nil] at htk ⊢
  obtain ⟨htt, hid, -, hsemi, -, -⟩ := htk
  have hpr' : ∀ n, ∀ p ∈ s.protectedPos, p < s.events.size + n := fun n p hp => Nat.lt_add_right n (hr.prot p hp)
  have h0 : s.kindAt (s.pos + 0) = ty.kind := by
    obtain ⟨ts, hts⟩ := tyToksX_head ty w
    rw [hts] at htt; exact htt.1
  have h1 : s.kindAt (s.pos + 1) ≠ .L_PAREN := tyNext ty w s s.pos htt _ (by decide) hid
  obtain ⟨st1, sb1, hle1, hty⟩ :=
    (typeSpecX_acc ty w (g + 4) (s.ov [Ev.start SyntaxKind.TOMBSTONE none, Ev.start SyntaxKind.TOMBSTONE none] 0 (s.steps + 1)
        (s.sinceBump + 1 + 1) (s.live + 1 + 1) s.protectedPos)
      (RdyL_ov 2 s _ _ _ _ _ _ hr.hook (by have := hr.steps; omega) (hpr' _) hr.lim) (by omega) hwide
      ((Toks_ov s _ _ _ _ _ _ _ _).2 htt)
      (by intro hw; subst hw; simp only [tyToksX, List.length_cons, List.length_nil] at hid
          show s.kindAt (s.pos + 0 + 1) ≠ _; rw [Nat.add_zero, hid]; decide)
      hc).at_ov
  have hidk : s.kindAt (s.pos + (0 + (tyToksX ty w).length)) = .IDENT := kindAt_pos hid (by omega)
  obtain ⟨st2, sb2, hle2, hvn⟩ :=
    (varName_acc (s.ov ([Ev.start SyntaxKind.TOMBSTONE none, Ev.start SyntaxKind.TOMBSTONE none] ++ tyEvsX ty w)
        (0 + (tyToksX ty w).length) st1 sb1 (s.live + 1) s.protectedPos)
      (Rdy_ov 2 s _ _ _ _ _ _ hr.hook (by have := hr.steps; omega) (hpr' _))
      (by show s.kindAt (s.pos + _ + 0) = _; exact kindAt_pos hid (by omega))).at_ov
  have hsemi' : s.kindAt (s.pos + (0 + (tyToksX ty w).length + 1)) = .SEMICOLON := kindAt_pos hsemi (by omega)
  have hst1 : st1 ≤ s.stepLimit := by have := hr.steps; omega
  have hab := fun dp st sb lv => abandon_mid s hr.prot
    (Ev.start SyntaxKind.TOMBSTONE none :: Ev.start SyntaxKind.TOMBSTONE none :: tyEvsX ty w) dp st sb lv 1
    (by have := tyEvsX_length ty w; simp only [List.length_cons]; omega)
  simp only [List.cons_append, List.nil_append] at hvn hty
  cases ty <;> simp only [Ty.kind] at h0 <;> run_base3 [h0, h1, hty, hab, hidk, hvn, hsemi']

/-- `const ty x ;` / `const ty[w] x ;` -/
theorem stmt_const_none (ty : Ty) (w : Option X) (F : Nat) (s : P) (hr : RdyL 8 s)
    (hF : optFuel w + 8 ≤ F) (hwide : w.isSome = true → ty.wide = true) (hc : WidthOK w)
    (htk : Toks s s.pos (toksS2 (.decl true ty w none))) :
    Acc (stmt F) s (toksS2 (.decl true ty w none)).length (evsS2 (.decl true ty w none)) := by
  obtain ⟨g, rfl⟩ : ∃ g, F = g + 4 + 4 := ⟨F - 8, by omega⟩
  simp only [toksS2, if_true, List.cons_append, List.nil_append, Toks, Toks_append, tk, List.length_cons, List.length_append, List.length_nil] at htk ⊢
  obtain ⟨h0, -, htt, hid, -, hsemi, -, -⟩ := htk
  rw [show s.pos = s.pos + 0 from rfl] at h0
  have hpr' : ∀ n, ∀ p ∈ s.protectedPos, p < s.events.size + n := fun n p hp => Nat.lt_add_right n (hr.prot p hp)
  obtain ⟨st1, sb1, hle1, hty⟩ :=
    (typeSpecX_acc ty w (g + 4) (s.ov [Ev.start SyntaxKind.TOMBSTONE none, .token .CONST_KW 1, Ev.start SyntaxKind.TOMBSTONE none] 1 0
        2 (s.live + 1 + 1) s.protectedPos)
      (RdyL_ov 2 s _ _ _ _ _ _ hr.hook (by have := hr.lim; omega) (hpr' _) hr.lim) (by omega) hwide
      ((Toks_ov s _ _ _ _ _ _ _ _).2 htt)
      (by intro hw; subst hw; simp only [tyToksX, List.length_cons, List.length_nil] at hid
          show s.kindAt (s.pos + 1 + 1) ≠ _; rw [hid]; decide)
      hc).at_ov
  have hidk : s.kindAt (s.pos + (1 + (tyToksX ty w).length)) = .IDENT := kindAt_pos hid (by omega)
  obtain ⟨st2, sb2, hle2, hvn⟩ :=
    (varName_acc (s.ov ([Ev.start SyntaxKind.TOMBSTONE none, .token .CONST_KW 1, Ev.start SyntaxKind.TOMBSTONE none] ++ tyEvsX ty w)
        (1 + (tyToksX ty w).length) st1 sb1 (s.live + 1) s.protectedPos)
      (Rdy_ov 2 s _ _ _ _ _ _ hr.hook (by have := hr.lim; omega) (hpr' _))
      (by show s.kindAt (s.pos + _ + 0) = _; exact kindAt_pos hid (by omega))).at_ov
  have hsemi' : s.kindAt (s.pos + (1 + (tyToksX ty w).length + 1)) = .SEMICOLON := kindAt_pos hsemi (by omega)
  have hst1 : st1 ≤ s.stepLimit := by have := hr.lim; omega
  have hab := fun dp st sb lv => abandon_mid s hr.prot
    (Ev.start SyntaxKind.TOMBSTONE none :: .token .CONST_KW 1 :: Ev.start SyntaxKind.TOMBSTONE none :: tyEvsX ty w) dp st sb lv 2
    (by have := tyEvsX_length ty w; simp only [List.length_cons]; omega)
  simp only [List.cons_append, List.nil_append] at hvn hty
  run_base3 [h0, hty, hab, hidk, hvn, hsemi']

/-- `ty x = e ;` / `ty[w] x = e ;` -/
theorem stmt_decl_some2 (ty : Ty) (w : Option X) (e : X) (F : Nat) (s : P) (hr : RdyL 8 s)
    (hF : max (optFuel w) (fuelX e) + 8 ≤ F) (hce : CanonX 1 e)
    (hwide : w.isSome = true → ty.wide = true) (hc : WidthOK w)
    (htk : Toks s s.pos (toksS2 (.decl false ty w (some e)))) :
    Acc (stmt F) s (toksS2 (.decl false ty w (some e))).length (evsS2 (.decl false ty w (some e))) := by
  obtain ⟨g, rfl⟩ : ∃ g, F = g + 4 + 4 := ⟨F - 8, by omega⟩
  simp only [toksS2, Bool.false_eq_true, if_false, List.nil_append, Toks, Toks_append, tk, List.length_cons, List.length_append, List.length_nil] at htk ⊢
  obtain ⟨htt, hid, -, heq, -, hte, hsemi, -, -⟩ := htk
  have hpr' : ∀ n, ∀ p ∈ s.protectedPos, p < s.events.size + n := fun n p hp => Nat.lt_add_right n (hr.prot p hp)
  have h0 : s.kindAt (s.pos + 0) = ty.kind := by
    obtain ⟨ts, hts⟩ := tyToksX_head ty w
    rw [hts] at htt; exact htt.1
  have h1 : s.kindAt (s.pos + 1) ≠ .L_PAREN := tyNext ty w s s.pos htt _ (by decide) hid
  obtain ⟨st1, sb1, hle1, hty⟩ :=
    (typeSpecX_acc ty w (g + 4) (s.ov [Ev.start SyntaxKind.TOMBSTONE none, Ev.start SyntaxKind.TOMBSTONE none] 0 (s.steps + 1)
        (s.sinceBump + 1 + 1) (s.live + 1 + 1) s.protectedPos)
      (RdyL_ov 2 s _ _ _ _ _ _ hr.hook (by have := hr.steps; omega) (hpr' _) hr.lim) (by omega) hwide
      ((Toks_ov s _ _ _ _ _ _ _ _).2 htt)
      (by intro hw; subst hw; simp only [tyToksX, List.length_cons, List.length_nil] at hid
          show s.kindAt (s.pos + 0 + 1) ≠ _; rw [Nat.add_zero, hid]; decide)
      hc).at_ov
  have hidk : s.kindAt (s.pos + (0 + (tyToksX ty w).length)) = .IDENT := kindAt_pos hid (by omega)
  obtain ⟨st2, sb2, hle2, hvn⟩ :=
    (varName_acc (s.ov ([Ev.start SyntaxKind.TOMBSTONE none, Ev.start SyntaxKind.TOMBSTONE none] ++ tyEvsX ty w)
        (0 + (tyToksX ty w).length) st1 sb1 (s.live + 1) s.protectedPos)
      (Rdy_ov 2 s _ _ _ _ _ _ hr.hook (by have := hr.steps; omega) (hpr' _))
      (by show s.kindAt (s.pos + _ + 0) = _; exact kindAt_pos hid (by omega))).at_ov
  have heq' : s.kindAt (s.pos + (0 + (tyToksX ty w).length + 1)) = .EQ := kindAt_pos heq (by omega)
  have he : ∀ st sb lv E0, st + 5 ≤ s.stepLimit →
      Oq3.Grammar.expr (g + 3 + 1) (s.ov E0 (0 + (tyToksX ty w).length + 1 + 1) st sb lv s.protectedPos) = _ :=
    fun st sb lv E0 h1 => (exprX_ok e).expr (g + 3) s E0 _ st sb lv s.protectedPos hr.hook h1 hr.lim (hpr' _)
      (Toks_pos hte (by omega)) hce (by rw [kindAt_pos hsemi (by omega)]; rfl) (by omega)
  have hsemi' : s.kindAt (s.pos + (0 + (tyToksX ty w).length + 1 + 1 + (toksX e).length)) = .SEMICOLON :=
    kindAt_pos hsemi (by omega)
  have hst1 : st1 ≤ s.stepLimit := by have := hr.steps; omega
  have hab := fun dp st sb lv => abandon_mid s hr.prot
    (Ev.start SyntaxKind.TOMBSTONE none :: Ev.start SyntaxKind.TOMBSTONE none :: tyEvsX ty w) dp st sb lv 1
    (by have := tyEvsX_length ty w; simp only [List.length_cons]; omega)
  simp only [List.cons_append, List.nil_append] at hvn hty
  cases ty <;> simp only [Ty.kind] at h0 <;> run_base3 [h0, h1, hty, hab, hidk, hvn, heq', he, hsemi']

/-- `const ty x = e ;` / `const ty[w] x = e ;` -/
theorem stmt_const_some (ty : Ty) (w : Option X) (e : X) (F : Nat) (s : P) (hr : RdyL 8 s)
    (hF : max (optFuel w) (fuelX e) + 8 ≤ F) (hce : CanonX 1 e)
    (hwide : w.isSome = true → ty.wide = true) (hc : WidthOK w)
    (htk : Toks s s.pos (toksS2 (.decl true ty w (some e)))) :
    Acc (stmt F) s (toksS2 (.decl true ty w (some e))).length (evsS2 (.decl true ty w (some e))) := by
  obtain ⟨g, rfl⟩ : ∃ g, F = g + 4 + 4 := ⟨F - 8, by omega⟩
  simp only [toksS2, if_true, List.cons_append, List.nil_append, Toks, Toks_append, tk, List.length_cons, List.length_append, List.length_nil] at htk ⊢
  obtain ⟨h0, -, htt, hid, -, heq, -, hte, hsemi, -, -⟩ := htk
  rw [show s.pos = s.pos + 0 from rfl] at h0
  have hpr' : ∀ n, ∀ p ∈ s.protectedPos, p < s.events.size + n := fun n p hp => Nat.lt_add_right n (hr.prot p hp)
  obtain ⟨st1, sb1, hle1, hty⟩ :=
    (typeSpecX_acc ty w (g + 4) (s.ov [Ev.start SyntaxKind.TOMBSTONE none, .token .CONST_KW 1, Ev.start SyntaxKind.TOMBSTONE none] 1 0
        2 (s.live + 1 + 1) s.protectedPos)
      (RdyL_ov 2 s _ _ _ _ _ _ hr.hook (by have := hr.lim; omega) (hpr' _) hr.lim) (by omega) hwide
      ((Toks_ov s _ _ _ _ _ _ _ _).2 htt)
      (by intro hw; subst hw; simp only [tyToksX, List.length_cons, List.length_nil] at hid
          show s.kindAt (s.pos + 1 + 1) ≠ _; rw [hid]; decide)
      hc).at_ov
  have hidk : s.kindAt (s.pos + (1 + (tyToksX ty w).length)) = .IDENT := kindAt_pos hid (by omega)
  obtain ⟨st2, sb2, hle2, hvn⟩ :=
    (varName_acc (s.ov ([Ev.start SyntaxKind.TOMBSTONE none, .token .CONST_KW 1, Ev.start SyntaxKind.TOMBSTONE none] ++ tyEvsX ty w)
        (1 + (tyToksX ty w).length) st1 sb1 (s.live + 1) s.protectedPos)
      (Rdy_ov 2 s _ _ _ _ _ _ hr.hook (by have := hr.lim; omega) (hpr' _))
      (by show s.kindAt (s.pos + _ + 0) = _; exact kindAt_pos hid (by omega))).at_ov
  have heq' : s.kindAt (s.pos + (1 + (tyToksX ty w).length + 1)) = .EQ := kindAt_pos heq (by omega)
  have he : ∀ st sb lv E0, st + 5 ≤ s.stepLimit →
      Oq3.Grammar.expr (g + 3 + 1) (s.ov E0 (1 + (tyToksX ty w).length + 1 + 1) st sb lv s.protectedPos) = _ :=
    fun st sb lv E0 h1 => (exprX_ok e).expr (g + 3) s E0 _ st sb lv s.protectedPos hr.hook h1 hr.lim (hpr' _)
      (Toks_pos hte (by omega)) hce (by rw [kindAt_pos hsemi (by omega)]; rfl) (by omega)
  have hsemi' : s.kindAt (s.pos + (1 + (tyToksX ty w).length + 1 + 1 + (toksX e).length)) = .SEMICOLON :=
    kindAt_pos hsemi (by omega)
  have hst1 : st1 ≤ s.stepLimit := by have := hr.lim; omega
  have hab := fun dp st sb lv => abandon_mid s hr.prot
    (Ev.start SyntaxKind.TOMBSTONE none :: .token .CONST_KW 1 :: Ev.start SyntaxKind.TOMBSTONE none :: tyEvsX ty w) dp st sb lv 2
    (by have := tyEvsX_length ty w; simp only [List.length_cons]; omega)
  simp only [List.cons_append, List.nil_append] at hvn hty
  have h1 : s.kindAt (s.pos + 1) = ty.kind := by
    obtain ⟨ts, hts⟩ := tyToksX_head ty w
    rw [hts] at htt; exact htt.1
  cases ty <;> simp only [Ty.kind] at h1 <;> run_base3 [h0, h1, hty, hab, hidk, hvn, heq', he, hsemi']

/-- `input ty x ;` / `output ty[w] x ;` -/
theorem stmt_io (out : Bool) (ty : Ty) (w : Option X) (F : Nat) (s : P) (hr : RdyL 8 s)
    (hF : optFuel w + 8 ≤ F) (hwide : w.isSome = true → ty.wide = true) (hc : WidthOK w)
    (htk : Toks s s.pos (toksS2 (.io out ty w))) :
    Acc (stmt F) s (toksS2 (.io out ty w)).length (evsS2 (.io out ty w)) := by
  obtain ⟨g, rfl⟩ : ∃ g, F = g + 4 + 3 := ⟨F - 7, by omega⟩
  simp only [toksS2, Toks, Toks_append, tk, List.length_cons, List.length_append, List.length_nil] at htk ⊢
  obtain ⟨h0, -, htt, hid, -, hsemi, -, -⟩ := htk
  rw [show s.pos = s.pos + 0 from rfl] at h0
  have hpr' : ∀ n, ∀ p ∈ s.protectedPos, p < s.events.size + n := fun n p hp => Nat.lt_add_right n (hr.prot p hp)
  have h1 : s.kindAt (s.pos + 1) = ty.kind := by
    obtain ⟨ts, hts⟩ := tyToksX_head ty w
    rw [hts] at htt; exact htt.1
  have hidk : s.kindAt (s.pos + (1 + (tyToksX ty w).length)) = .IDENT := kindAt_pos hid (by omega)
  have hsemi' : s.kindAt (s.pos + (1 + (tyToksX ty w).length + 1)) = .SEMICOLON := kindAt_pos hsemi (by omega)
  obtain ⟨st1, sb1, hle1, hty⟩ :=
    (typeSpecX_acc ty w (g + 4) (s.ov [Ev.start SyntaxKind.TOMBSTONE none, .token (if out then .OUTPUT_KW else .INPUT_KW) 1] 1 0
        1 (s.live + 1) s.protectedPos)
      (RdyL_ov 2 s _ _ _ _ _ _ hr.hook (by have := hr.lim; omega) (hpr' _) hr.lim) (by omega) hwide
      ((Toks_ov s _ _ _ _ _ _ _ _).2 htt)
      (by intro hw; subst hw; simp only [tyToksX, List.length_cons, List.length_nil] at hid
          show s.kindAt (s.pos + 1 + 1) ≠ _; rw [hid]; decide)
      hc).at_ov
  obtain ⟨st2, sb2, hle2, hvn⟩ :=
    (varName_acc (s.ov ([Ev.start SyntaxKind.TOMBSTONE none, .token (if out then .OUTPUT_KW else .INPUT_KW) 1] ++ tyEvsX ty w)
        (1 + (tyToksX ty w).length) st1 sb1 (s.live + 1) s.protectedPos)
      (Rdy_ov 2 s _ _ _ _ _ _ hr.hook (by have := hr.lim; omega) (hpr' _))
      (by show s.kindAt (s.pos + _ + 0) = _; exact kindAt_pos hid (by omega))).at_ov
  have hst1 : st1 ≤ s.stepLimit := by have := hr.lim; omega
  simp only [List.cons_append, List.nil_append] at hvn hty
  cases out <;> simp only [Bool.false_eq_true, if_false, if_true] at h0 hty hvn ⊢ <;>
  cases ty <;> simp only [Ty.kind] at h1 <;> run_base3 [h0, h1, hty, hidk, hvn, hsemi']

/-- `[w]` -/
theorem designator_acc (w : X) (F : Nat) (s : P) (hr : RdyL 2 s) (hF : fuelX w + 2 ≤ F)
    (h0 : s.kindAt (s.pos + 0) = .L_BRACK) (htw : Toks s (s.pos + 1) (toksX w))
    (hrb : s.kindAt (s.pos + (1 + (toksX w).length)) = .R_BRACK) (hc : CanonX 1 w)
    (hf1 : firstX w ≠ .FLOAT_NUMBER) (hf2 : firstX w ≠ .BIT_STRING) :
    AccV (designator F) true s ((toksX w).length + 2) (desigEvs w) := by
  obtain ⟨g, rfl⟩ : ∃ g, F = g + 2 := ⟨F - 2, by omega⟩
  have hpr' : ∀ n, ∀ p ∈ s.protectedPos, p < s.events.size + n := fun n p hp => Nat.lt_add_right n (hr.prot p hp)
  have hsub : ∀ st sb lv E0, st + 5 ≤ s.stepLimit → Oq3.Grammar.expr (g + 1) (s.ov E0 1 st sb lv s.protectedPos) = _ :=
    fun st sb lv E0 h1 => (exprX_ok w).expr g s E0 1 st sb lv s.protectedPos hr.hook h1 hr.lim (hpr' _) htw hc
      (by rw [kindAt_pos hrb (by omega)]; rfl) (by omega)
  obtain ⟨j, ts, hts⟩ := toksX_first w
  have h1 : s.kindAt (s.pos + 1) = firstX w := by rw [hts] at htw; exact htw.1
  obtain ⟨-, -, -, -, -, -, -, -, -, -, e3, e4, e5⟩ := xFirst_ne (h1 ▸ firstX_xFirst w)
  rw [← h1] at hf1 hf2
  run_base3 [h0, hf1, hf2, e3, e4, e5, hrb, hsub]

theorem desig_len (w : X) : (desigToks w).length = (toksX w).length + 2 := by
  simp only [desigToks, List.length_cons, List.length_append, List.length_nil]

/-- `qubit q ;` -/
theorem stmt_qubit_none (F : Nat) (s : P) (hr : RdyL 8 s) (hF : 8 ≤ F) (htk : Toks s s.pos (toksS2 (.qubit none))) :
    Acc (stmt F) s (toksS2 (.qubit none)).length (evsS2 (.qubit none)) := by
  obtain ⟨g, rfl⟩ : ∃ g, F = g + 8 := ⟨F - 8, by omega⟩
  simp only [toksS2, Toks, tk] at htk
  obtain ⟨h0, -, h1, -, h2, -, -⟩ := htk
  rw [show s.pos = s.pos + 0 from rfl] at h0
  rw [show s.pos + 1 + 1 = s.pos + 2 from rfl] at h2
  run_base3 [h0, h1, h2]

/-- `qubit[w] q ;` -/
theorem stmt_qubit_some (w : X) (F : Nat) (s : P) (hr : RdyL 8 s) (hF : fuelX w + 8 ≤ F)
    (htk : Toks s s.pos (toksS2 (.qubit (some w)))) (hc : WidthOK (some w)) :
    Acc (stmt F) s (toksS2 (.qubit (some w))).length (evsS2 (.qubit (some w))) := by
  obtain ⟨g, rfl⟩ : ∃ g, F = g + 4 := ⟨F - 4, by omega⟩
  obtain ⟨hc1, hc2, hc3⟩ := hc w rfl
  simp only [toksS2, desigToks, Toks, Toks_append, tk, List.length_cons, List.length_append, List.length_nil] at htk ⊢
  obtain ⟨h0, -, ⟨h1, -, htw, hrb, -, -⟩, hid, -, hsemi, -, -⟩ := htk
  rw [show s.pos = s.pos + 0 from rfl] at h0
  have hpr' : ∀ n, ∀ p ∈ s.protectedPos, p < s.events.size + n := fun n p hp => Nat.lt_add_right n (hr.prot p hp)
  obtain ⟨st1, sb1, hle1, hd⟩ :=
    (designator_acc w g (s.ov [Ev.start SyntaxKind.TOMBSTONE none, .start .TOMBSTONE none, .token .QUBIT_KW 1] 1 0 1 (s.live + 1 + 1) s.protectedPos)
      (RdyL_ov 2 s _ _ _ _ _ _ hr.hook (by have := hr.lim; omega) (hpr' _) hr.lim) (by omega)
      h1 ((Toks_ov s _ _ _ _ _ _ _ _).2 htw) (kindAt_pos hrb (by show s.pos + 1 + _ = _; omega)) hc1 hc2 hc3).at_ov
  simp only [List.cons_append, List.nil_append] at hd
  have hid' : s.kindAt (s.pos + (1 + ((toksX w).length + 2))) = .IDENT := kindAt_pos hid (by omega)
  have hsemi' : s.kindAt (s.pos + (1 + ((toksX w).length + 2) + 1)) = .SEMICOLON := kindAt_pos hsemi (by omega)
  have hst1 : st1 ≤ s.stepLimit := by have := hr.lim; omega
  obtain ⟨st2, sb2, hle2, hvn⟩ :=
    (varName_acc (s.ov (Ev.start SyntaxKind.TOMBSTONE none :: Ev.start SyntaxKind.QUBIT_TYPE none :: Ev.token SyntaxKind.QUBIT_KW 1 ::
          (desigEvs w ++ [Ev.finish])) (1 + ((toksX w).length + 2)) st1 (sb1 + 1) (s.live + 1) s.protectedPos)
      (Rdy_ov 2 s _ _ _ _ _ _ hr.hook (by have := hr.lim; omega) (hpr' _))
      (by show s.kindAt (s.pos + _ + 0) = _; exact kindAt_pos hid (by omega))).at_ov
  simp only [List.cons_append, List.nil_append, List.append_assoc] at hvn
  run_base3 [h0, h1, hd, hid', hvn, hsemi']


/-- `qreg q[items] ;` / `creg c[items] ;` -/
theorem stmt_oldReg (c : Bool) (items : ItemList) (F : Nat) (s : P) (hr : RdyL 8 s)
    (hF : sumItems items + countItems items + 11 ≤ F)
    (htk : Toks s s.pos (toksS2 (.oldReg c items))) (hc : CanonItems items) (hfo : ItemsFirstOK items) :
    Acc (stmt F) s (toksS2 (.oldReg c items)).length (evsS2 (.oldReg c items)) := by
  obtain ⟨g, rfl⟩ : ∃ g, F = g + 4 := ⟨F - 4, by omega⟩
  simp only [toksS2, Toks, Toks_append, tk, List.length_cons, List.length_append, List.length_nil] at htk ⊢
  obtain ⟨h0, -, h1, -, h2, -, hti, hrb, -, hsemi, -, -⟩ := htk
  rw [show s.pos = s.pos + 0 from rfl] at h0
  rw [show s.pos + 1 + 1 = s.pos + 2 from rfl] at h2
  have hpr' : ∀ n, ∀ p ∈ s.protectedPos, p < s.events.size + n := fun n p hp => Nat.lt_add_right n (hr.prot p hp)
  have hop := indexOp_acc items (sumItems items) (g + 1)
    (s.ov [Ev.start SyntaxKind.TOMBSTONE none, .start .TOMBSTONE none, .token (if c then .CREG_KW else .QREG_KW) 1, .token .IDENT 1] 2 0 1
      (s.live + 1 + 1) s.protectedPos) (itemsOK items) (by omega)
    (RdyL_ov 6 s _ _ _ _ _ _ hr.hook (by have := hr.lim; omega) (hpr' _) hr.lim)
    h2 ((Toks_ov s _ _ _ _ _ _ _ _).2 (Toks_pos hti (by show s.pos + 2 + 1 = _; omega)))
    (kindAt_pos hrb (by show s.pos + 2 + _ = _; omega)) hc hfo
  rw [ov_ov] at hop
  simp only [List.cons_append, List.nil_append, ov_live, ov_prot] at hop
  have hsemi' : s.kindAt (s.pos + (2 + ((toksItems items).length + 2))) = .SEMICOLON := kindAt_pos hsemi (by omega)
  have bE : (s.kindAt (s.pos + 2) == SyntaxKind.EOF) = false := by rw [h2]; rfl
  cases c <;> simp only [Bool.false_eq_true, if_false, if_true] at h0 hop ⊢ <;> run_base3 [h0, h1, h2, bE, hop, hsemi']


/-- `let x = e ;` through `stmt` (LET_STMT) -/
theorem stmt_letS (e : X) (F : Nat) (s : P) (hr : RdyL 8 s) (hF : fuelX e + 4 ≤ F)
    (htk : Toks s s.pos (toksS2 (.letS e))) (hc : CanonX 1 e) :
    Acc (stmt F) s (toksS2 (.letS e)).length (evsS2 (.letS e)) := by
  obtain ⟨g, rfl⟩ : ∃ g, F = g + 1 + 2 := ⟨F - 3, by omega⟩
  simp only [toksS2, Toks, Toks_append, tk, List.length_cons, List.length_append, List.length_nil] at htk ⊢
  obtain ⟨h0, -, h1, -, h2, -, hte, hsemi, -, -⟩ := htk
  rw [show s.pos = s.pos + 0 from rfl] at h0
  rw [show s.pos + 1 + 1 = s.pos + 2 from rfl] at h2
  have hpr' : ∀ n, ∀ p ∈ s.protectedPos, p < s.events.size + n := fun n p hp => Nat.lt_add_right n (hr.prot p hp)
  have he : ∀ st sb lv E0, st + 5 ≤ s.stepLimit → Oq3.Grammar.expr (g + 1) (s.ov E0 3 st sb lv s.protectedPos) = _ :=
    fun st sb lv E0 h1 => (exprX_ok e).expr g s E0 3 st sb lv s.protectedPos hr.hook h1 hr.lim (hpr' _)
      (Toks_pos hte (by omega)) hc (by rw [kindAt_pos hsemi (by omega)]; rfl) (by omega)
  have hsemi' : s.kindAt (s.pos + (3 + (toksX e).length)) = .SEMICOLON := kindAt_pos hsemi (by omega)
  run_base3 [h0, h1, h2, he, hsemi']

/-- `reset q ;` -/
theorem stmt_reset2 (q : Q) (F : Nat) (s : P) (hr : RdyL 8 s) (hF : needQ q + 4 ≤ F)
    (htk : Toks s s.pos (toksS2 (.reset q))) (hc : CanonQ q) :
    Acc (stmt F) s (toksS2 (.reset q)).length (evsS2 (.reset q)) := by
  obtain ⟨g, rfl⟩ : ∃ g, F = g + 3 := ⟨F - 3, by omega⟩
  simp only [toksS2, Toks, Toks_append, tk, List.length_cons, List.length_append, List.length_nil] at htk ⊢
  obtain ⟨h0, -, htq, hsemi, -, -⟩ := htk
  rw [show s.pos = s.pos + 0 from rfl] at h0
  have hpr' : ∀ n, ∀ p ∈ s.protectedPos, p < s.events.size + n := fun n p hp => Nat.lt_add_right n (hr.prot p hp)
  obtain ⟨ts, hts⟩ := toksQ_first q
  have h1 : s.kindAt (s.pos + 1) = firstQ q := by rw [hts] at htq; exact htq.1
  have harg := qarg_acc q g (s.ov [Ev.start SyntaxKind.TOMBSTONE none, .token .RESET_KW 1] 1 0 1 (s.live + 1) s.protectedPos)
    hr.hook hr.lim (by intro p hp; exact (Rdy_ov 0 s _ _ _ _ _ _ hr.hook (Nat.zero_le _) (hpr' _)).prot p hp) (by omega)
    ((Toks_ov s _ _ _ _ _ _ _ _).2 htq) (by show s.kindAt (s.pos + 1 + _) ≠ _; rw [hsemi]; decide) hc 0 2 (s.live + 1) (by have := hr.lim; show 0 + 6 ≤ s.stepLimit; omega)
  simp only [ov_ov, List.cons_append, List.nil_append, ov_events_size, List.length_cons, List.length_nil, ov_prot, Nat.add_zero,
    Nat.zero_add, Nat.reduceAdd] at harg
  have hsemi' : s.kindAt (s.pos + (1 + (toksQ q).length)) = .SEMICOLON := kindAt_pos hsemi (by omega)
  rcases firstQ_cases q with hq | hq <;> rw [hq] at h1 <;> run_base3 [h0, h1, harg, hsemi']


/-- `barrier q0, …, qn ;` -/
theorem stmt_barrier2 (qs : QList) (F : Nat) (s : P) (hr : RdyL 8 s) (hF : needQs qs + 5 ≤ F)
    (htk : Toks s s.pos (toksS2 (.barrier qs))) (hc : CanonQs qs) :
    Acc (stmt F) s (toksS2 (.barrier qs)).length (evsS2 (.barrier qs)) := by
  obtain ⟨g, rfl⟩ : ∃ g, F = g + 3 := ⟨F - 3, by omega⟩
  simp only [toksS2, Toks, Toks_append, tk, List.length_cons, List.length_append, List.length_nil] at htk ⊢
  obtain ⟨h0, -, htq, hsemi, -, -⟩ := htk
  rw [show s.pos = s.pos + 0 from rfl] at h0
  obtain ⟨q, ts, hts⟩ := toksQs_first qs
  have h1 : s.kindAt (s.pos + 1) = firstQ q := by rw [hts] at htq; exact htq.1
  have hpr' : ∀ n, ∀ p ∈ s.protectedPos, p < s.events.size + n := fun n p hp => Nat.lt_add_right n (hr.prot p hp)
  obtain ⟨st', sb', hle, hq⟩ :=
    (qlist_acc qs g (s.ov [.start .TOMBSTONE none, .token .BARRIER_KW 1] 1 0 1 (s.live + 1) s.protectedPos)
      (RdyL_ov 6 s _ _ _ _ _ _ hr.hook (by have := hr.lim; omega) (hpr' _) hr.lim) (by omega)
      ((Toks_ov s _ _ _ _ _ _ _ _).2 htq) hsemi hc).at_ov
  simp only [List.cons_append, List.nil_append] at hq
  have hsemi' : s.kindAt (s.pos + (1 + (toksQs qs).length)) = .SEMICOLON := kindAt_pos hsemi (by omega)
  rcases firstQ_cases q with hq1 | hq1 <;> rw [hq1] at h1 <;> run_base3 [h0, h1, hq, hsemi']

/-- `delay[d] q0, …, qn ;` -/
theorem stmt_delay (d : X) (qs : QList) (F : Nat) (s : P) (hr : RdyL 8 s) (hF : max (fuelX d + 2) (needQs qs + 2) + 3 ≤ F)
    (htk : Toks s s.pos (toksS2 (.delay d qs))) (hcd : WidthOK (some d)) (hc : CanonQs qs) :
    Acc (stmt F) s (toksS2 (.delay d qs)).length (evsS2 (.delay d qs)) := by
  obtain ⟨g, rfl⟩ : ∃ g, F = g + 3 := ⟨F - 3, by omega⟩
  obtain ⟨hc1, hc2, hc3⟩ := hcd d rfl
  simp only [toksS2, desigToks, Toks, Toks_append, tk, List.length_cons, List.length_append, List.length_nil] at htk ⊢
  obtain ⟨h0, -, ⟨h1, -, htw, hrb, -, -⟩, htq, hsemi, -, -⟩ := htk
  rw [show s.pos = s.pos + 0 from rfl] at h0
  have hpr' : ∀ n, ∀ p ∈ s.protectedPos, p < s.events.size + n := fun n p hp => Nat.lt_add_right n (hr.prot p hp)
  obtain ⟨st1, sb1, hle1, hd⟩ :=
    (designator_acc d g (s.ov [Ev.start SyntaxKind.TOMBSTONE none, .token .DELAY_KW 1] 1 0 1 (s.live + 1) s.protectedPos)
      (RdyL_ov 2 s _ _ _ _ _ _ hr.hook (by have := hr.lim; omega) (hpr' _) hr.lim) (by omega)
      h1 ((Toks_ov s _ _ _ _ _ _ _ _).2 htw) (kindAt_pos hrb (by show s.pos + 1 + _ = _; omega)) hc1 hc2 hc3).at_ov
  simp only [List.cons_append, List.nil_append] at hd
  obtain rfl : st1 = 0 := by omega
  obtain ⟨st', sb', hle, hq⟩ :=
    (qlist_acc qs g (s.ov (.start .TOMBSTONE none :: .token .DELAY_KW 1 :: desigEvs d) (1 + ((toksX d).length + 2)) 0 sb1 (s.live + 1) s.protectedPos)
      (RdyL_ov 6 s _ _ _ _ _ _ hr.hook (by have := hr.lim; omega) (hpr' _) hr.lim) (by omega)
      ((Toks_ov s _ _ _ _ _ _ _ _).2 (Toks_pos htq (by show s.pos + _ = _; omega)))
      (kindAt_pos hsemi (by show s.pos + _ + _ = _; omega)) hc).at_ov
  simp only [List.cons_append, List.nil_append] at hq
  have hsemi' : s.kindAt (s.pos + (1 + ((toksX d).length + 2) + (toksQs qs).length)) = .SEMICOLON := kindAt_pos hsemi (by omega)
  run_base3 [h0, h1, hd, hq, hsemi']

theorem stmt_brk2 (F : Nat) (s : P) (hr : RdyL 8 s) (hF : 8 ≤ F) (htk : Toks s s.pos (toksS2 .brk)) :
    Acc (stmt F) s (toksS2 .brk).length (evsS2 .brk) := by
  obtain ⟨f, rfl⟩ : ∃ f, F = f + 8 := ⟨F - 8, by omega⟩
  simp only [toksS2, Toks, tk] at htk
  obtain ⟨h0, -, h1, -, -⟩ := htk
  rw [show s.pos = s.pos + 0 from rfl] at h0
  run_base3 [h0, h1]

theorem stmt_cont2 (F : Nat) (s : P) (hr : RdyL 8 s) (hF : 8 ≤ F) (htk : Toks s s.pos (toksS2 .cont)) :
    Acc (stmt F) s (toksS2 .cont).length (evsS2 .cont) := by
  obtain ⟨f, rfl⟩ : ∃ f, F = f + 8 := ⟨F - 8, by omega⟩
  simp only [toksS2, Toks, tk] at htk
  obtain ⟨h0, -, h1, -, -⟩ := htk
  rw [show s.pos = s.pos + 0 from rfl] at h0
  run_base3 [h0, h1]

theorem stmt_endS2 (F : Nat) (s : P) (hr : RdyL 8 s) (hF : 8 ≤ F) (htk : Toks s s.pos (toksS2 .endS)) :
    Acc (stmt F) s (toksS2 .endS).length (evsS2 .endS) := by
  obtain ⟨f, rfl⟩ : ∃ f, F = f + 8 := ⟨F - 8, by omega⟩
  simp only [toksS2, Toks, tk] at htk
  obtain ⟨h0, -, h1, -, -⟩ := htk
  rw [show s.pos = s.pos + 0 from rfl] at h0
  run_base3 [h0, h1]

theorem stmt_pragma (F : Nat) (s : P) (hr : RdyL 8 s) (hF : 8 ≤ F) (htk : Toks s s.pos (toksS2 .pragma)) :
    Acc (stmt F) s (toksS2 .pragma).length (evsS2 .pragma) := by
  obtain ⟨f, rfl⟩ : ∃ f, F = f + 8 := ⟨F - 8, by omega⟩
  simp only [toksS2, Toks, tk] at htk
  obtain ⟨h0, -, -⟩ := htk
  rw [show s.pos = s.pos + 0 from rfl] at h0
  run_base3 [h0]

theorem stmt_annot (F : Nat) (s : P) (hr : RdyL 8 s) (hF : 8 ≤ F) (htk : Toks s s.pos (toksS2 .annot)) :
    Acc (stmt F) s (toksS2 .annot).length (evsS2 .annot) := by
  obtain ⟨f, rfl⟩ : ∃ f, F = f + 8 := ⟨F - 8, by omega⟩
  simp only [toksS2, Toks, tk] at htk
  obtain ⟨h0, -, -⟩ := htk
  rw [show s.pos = s.pos + 0 from rfl] at h0
  run_base3 [h0]

theorem stmt_incl (F : Nat) (s : P) (hr : RdyL 8 s) (hF : 8 ≤ F) (htk : Toks s s.pos (toksS2 .incl)) :
    Acc (stmt F) s (toksS2 .incl).length (evsS2 .incl) := by
  obtain ⟨f, rfl⟩ : ∃ f, F = f + 8 := ⟨F - 8, by omega⟩
  simp only [toksS2, Toks, tk] at htk
  obtain ⟨h0, -, h1, -, h2, -, -⟩ := htk
  rw [show s.pos = s.pos + 0 from rfl] at h0
  rw [show s.pos + 1 + 1 = s.pos + 2 from rfl] at h2
  run_base3 [h0, h1, h2]

theorem stmt_version (F : Nat) (s : P) (hr : RdyL 8 s) (hF : 8 ≤ F) (htk : Toks s s.pos (toksS2 .version)) :
    Acc (stmt F) s (toksS2 .version).length (evsS2 .version) := by
  obtain ⟨f, rfl⟩ : ∃ f, F = f + 8 := ⟨F - 8, by omega⟩
  simp only [toksS2, Toks, tk] at htk
  obtain ⟨h0, -, h1, -, h2, -, -⟩ := htk
  rw [show s.pos = s.pos + 0 from rfl] at h0
  rw [show s.pos + 1 + 1 = s.pos + 2 from rfl] at h2
  run_base3 [h0, h1, h2]


theorem tyListToks_cons2 (t u : Ty) (ts : List Ty) : tyListToks (t :: u :: ts) = tk t.kind :: tk .COMMA :: tyListToks (u :: ts) := rfl

/-- the item loop of `_param_list_openqasm` on the types of an `extern` declaration -/
theorem tyLoop_acc (ts : List Ty) : ∀ (t : Ty) (g k : Nat) (s : P), RdyL 2 s → Toks s s.pos (tyListToks (t :: ts)) →
    s.kindAt (s.pos + (tyListToks (t :: ts)).length) = .R_PAREN →
    AccV (paramListOpenqasmLoop (g + ts.length + 6) .typeListFlavor k) (k + ts.length + 1) s (tyListToks (t :: ts)).length
      (tyListEvs (t :: ts)) := by
  induction ts with
  | nil =>
    intro t g k s hr htk hend
    simp only [tyListToks, Toks, tk, List.length_cons, List.length_nil] at htk hend
    obtain ⟨h0, -, -⟩ := htk
    rw [show s.pos = s.pos + 0 from rfl] at h0
    simp only [Nat.zero_add] at hend
    have hnb : s.kindAt (s.pos + 1) ≠ .L_BRACK := by rw [hend]; decide
    cases t <;> simp only [Ty.kind] at h0 <;> run_base3 [h0, hnb, hend]
  | cons u us ih =>
    intro t g k s hr htk hend
    rw [tyListToks_cons2] at htk hend
    simp only [Toks, tk, List.length_cons] at htk hend
    obtain ⟨h0, -, h1, -, htk⟩ := htk
    rw [show s.pos = s.pos + 0 from rfl] at h0
    have hpr' : ∀ n, ∀ p ∈ s.protectedPos, p < s.events.size + n := fun n p hp => Nat.lt_add_right n (hr.prot p hp)
    obtain ⟨st', sb', hle, hrec'⟩ :=
      (ih u g (k + 1) (s.ov [.start .SCALAR_TYPE none, .start .SCALAR_TYPE none, .token t.kind 1, .finish, .finish, .token .COMMA 1] 2 0 1 s.live s.protectedPos)
        (RdyL_ov 2 s _ _ _ _ _ _ hr.hook (by have := hr.lim; omega) (hpr' _) hr.lim)
        ((Toks_ov s _ _ _ _ _ _ _ _).2 (Toks_pos htk (by show s.pos + 2 = _; omega)))
        (kindAt_pos hend (by show s.pos + 2 + _ = _; omega))).at_ov
    have hnb : s.kindAt (s.pos + 1) ≠ .L_BRACK := by rw [h1]; decide
    show AccV (paramListOpenqasmLoop ((g + us.length + 6) + 1) .typeListFlavor k) _ s _ _
    cases t <;> simp only [Ty.kind] at h0 hrec' <;> run_base3 [h0, h1, hnb, hrec']

/-- `-> ty` followed by a token that is not `[` -/
theorem retSigSome_acc (ty : Ty) (g : Nat) (s : P) (hr : RdyL 2 s) (htk : Toks s s.pos (retToks (some ty)))
    (h3 : s.kindAt (s.pos + 3) ≠ .L_BRACK) :
    AccV (optReturnSignature (g + 5)) true s (retToks (some ty)).length (retEvs (some ty)) := by
  simp only [retToks, Toks, tk, List.length_cons, List.length_nil, true_implies] at htk
  obtain ⟨h0, hj, h1, -, h2, -, -⟩ := htk
  rw [show s.pos = s.pos + 0 from rfl] at h0
  rw [show s.pos + 1 + 1 = s.pos + 2 from rfl] at h2
  have hatF : atF .THIN_ARROW s.kinds s.joint (s.pos + 0) = true := by
    rw [atF_THIN_ARROW]
    simp only [P.kindAt] at h0 h1
    simp only [Nat.add_zero] at h0 ⊢
    simp only [h0, h1, hj, beq_self_eq_true, Bool.and_self]
  have hat : ∀ E st sb lv pr, at' .THIN_ARROW (s.ov E 0 st sb lv pr) = .ok (true, s.ov E 0 st sb lv pr) := by
    intro E st sb lv pr; rw [at_total]; exact congrArg (fun b => Except.ok (b, _)) hatF
  have hjr : ∀ E st sb lv pr, (s.ov E 0 st sb lv pr).jointRes (s.pos + 0) = .ok (true, s.ov E 0 st sb lv pr) := by
    intro E st sb lv pr
    unfold P.jointRes
    rw [isJoint_in_range _ _ (by show s.kindAt (s.pos + 0 + 1) ≠ _; rw [Nat.add_zero, h1]; decide)]
    have : (s.ov E 0 st sb lv pr).joint.getD (s.pos + 0) false = true := by rw [Nat.add_zero]; exact hj
    rw [this]
  have hbump := fun E st sb lv pr => bump_atF_ov .THIN_ARROW (by decide) s E 0 st sb lv pr hatF
  rw [show eatRawTokens .THIN_ARROW = 2 from by decide] at hbump
  cases ty <;> simp only [Ty.kind] at h2 <;> run_base3 [h0, h1, hjr, hat, hbump, h2, h3]

/-- `extern f(ty0, …) -> ty ;` -/
theorem stmt_externS (tys : List Ty) (ret : Ty) (F : Nat) (s : P) (hr : RdyL 8 s) (hF : tys.length + 11 ≤ F)
    (htk : Toks s s.pos (toksS2 (.externS tys ret))) :
    Acc (stmt F) s (toksS2 (.externS tys ret)).length (evsS2 (.externS tys ret)) := by
  simp only [toksS2, Toks, Toks_append, tk, List.length_cons, List.length_append, List.length_nil] at htk ⊢
  obtain ⟨h0, -, h1, -, h2, -, htt, hrp, -, htr, hsemi, -, -⟩ := htk
  rw [show s.pos = s.pos + 0 from rfl] at h0
  rw [show s.pos + 1 + 1 = s.pos + 2 from rfl] at h2
  have hpr' : ∀ n, ∀ p ∈ s.protectedPos, p < s.events.size + n := fun n p hp => Nat.lt_add_right n (hr.prot p hp)
  have hrp' : s.kindAt (s.pos + (3 + (tyListToks tys).length)) = .R_PAREN := kindAt_pos hrp (by omega)
  have hsemi' : s.kindAt (s.pos + (3 + (tyListToks tys).length + 1 + (retToks (some ret)).length)) = .SEMICOLON :=
    kindAt_pos hsemi (by simp only [retToks, List.length_cons, List.length_nil]; omega)
  have hret := fun (E0 : List Ev) (f : Nat) => (retSigSome_acc ret f
    (s.ov E0 (3 + (tyListToks tys).length + 1) 0 2 (s.live + 1) s.protectedPos)
    (RdyL_ov 2 s _ _ _ _ _ _ hr.hook (by have := hr.lim; omega) (hpr' _) hr.lim)
    ((Toks_ov s _ _ _ _ _ _ _ _).2 (Toks_pos htr (by show s.pos + _ = _; omega)))
    (by
      simp only [retToks, List.length_cons, List.length_nil] at hsemi
      have := kindAt_pos hsemi (show s.pos + (3 + (tyListToks tys).length + 1) + 3 = _ by omega)
      show s.kindAt (s.pos + (3 + (tyListToks tys).length + 1) + 3) ≠ _
      rw [this]; decide)).at_ov
  cases tys with
  | nil =>
    obtain ⟨g, rfl⟩ : ∃ g, F = g + 5 + 3 := ⟨F - 8, by simp only [List.length_nil] at hF; omega⟩
    obtain ⟨st2, sb2, hle2, hret'⟩ := hret (.start .TOMBSTONE none :: .token .EXTERN_KW 1 :: .start .NAME none :: .token .IDENT 1 :: .finish ::
        .start .TYPE_LIST none :: .token .L_PAREN 1 :: [.token .R_PAREN 1, .finish]) g
    simp only [List.cons_append, List.nil_append, tyListToks, List.length_nil, Nat.add_zero] at hret' hrp' hsemi' ⊢
    run_base3 [h0, h1, h2, hrp', hret', hsemi']
  | cons t ts =>
    obtain ⟨g, rfl⟩ : ∃ g, F = (g + ts.length + 6) + 1 + 1 + 3 := ⟨F - ts.length - 11, by simp only [List.length_cons] at hF; omega⟩
    obtain ⟨st1, sb1, hle1, hloop⟩ :=
      (tyLoop_acc ts t g 0 (s.ov [.start .TOMBSTONE none, .token .EXTERN_KW 1, .start .NAME none, .token .IDENT 1, .finish,
          .start .TOMBSTONE none, .token .L_PAREN 1] 3 0 1 (s.live + 1 + 1) s.protectedPos)
        (RdyL_ov 2 s _ _ _ _ _ _ hr.hook (by have := hr.lim; omega) (hpr' _) hr.lim)
        ((Toks_ov s _ _ _ _ _ _ _ _).2 (Toks_pos htt (by show s.pos + 3 = _; omega)))
        (kindAt_pos hrp (by show s.pos + 3 + _ = _; omega))).at_ov
    simp only [List.cons_append, List.nil_append] at hloop
    obtain ⟨st2, sb2, hle2, hret'⟩ := hret (.start .TOMBSTONE none :: .token .EXTERN_KW 1 :: .start .NAME none :: .token .IDENT 1 :: .finish ::
        .start .TYPE_LIST none :: .token .L_PAREN 1 :: (tyListEvs (t :: ts) ++ [.token .R_PAREN 1] ++ [.finish])) (g + ts.length + 3)
    simp only [List.cons_append, List.nil_append] at hret'
    have h3 : s.kindAt (s.pos + 3) = t.kind := by
      cases ts <;> simp only [tyListToks, Toks, tk] at htt <;> exact htt.1
    cases t <;> simp only [Ty.kind] at h3 <;> run_base3 [h0, h1, h2, h3, hloop, hrp', hret', hsemi']

end Oq3.LangEv2
