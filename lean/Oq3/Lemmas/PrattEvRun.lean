/-
Event-level Pratt round trip, part 3: the run of `expr_bp` on the print of a tree.

`exprBp_cps` (continuation form, by induction on the tree): parsing `toks t` at level `bp` is the same
as pushing `evs t` and continuing the operator loop of `expr_bp` with `lhs` = the root of `t` — the
event-level version of lemma `Q` of `Props/C05.lean`.  The straight-line parts of the runs are
computed by `sym_eval`; the recursive calls enter as rewrite rules.
-/
import Oq3.Lemmas.PrattEvOps
import Oq3.Props.C04
set_option linter.unusedSimpArgs false
set_option linter.unusedVariables false

namespace Oq3.PrattEv
open Oq3.Gen Oq3.Parser Oq3.Grammar Oq3.SymExec
open Oq3.Gen.Ops (Assoc)

/-! ### Follow conditions, canonicity, fuel -/

/-- the loop of `expr_bp` run at level `bp` stops at (absolute) position `q`: `current_op` there
has a binding power below `bp` (`opF` is `current_op`, see `currentOp_eq`) -/
def StopsAt (s : P) (q bp : Nat) : Prop := (opF s.kinds s.joint q).1 < bp

/-- along the right spine of the tree every pending loop stops at `q` -/
def RightStops : E → P → Nat → Prop
  | .bin o _ r, s, q => StopsAt s q (o.pow + 1) ∧ RightStops r s q
  | .pre _ e, s, q => StopsAt s q 255 ∧ RightStops e s q
  | _, _, _ => True

/-- what the token after the tree must not be, besides an operator: a postfix opener (`(` call,
`[` index) after any atom; an identifier after an identifier (`atom_expr` would start a gate call)
or after a literal (`literal` would make a timing literal) -/
def EndOK (t : E) (k : SyntaxKind) : Prop :=
  k ≠ .L_PAREN ∧ k ≠ .L_BRACK ∧
    match last t with
    | .id => k ≠ .IDENT ∧ k ≠ .HARDWAREIDENT
    | .int => k ≠ .IDENT
    | .paren => True

/-- canonical at level `bp` for the implementation's table (`canonE_iff` in `Props/C05Events.lean`:
this is `Oq3.Props.C05.Canon implTab bp t.toPratt`) -/
def CanonE : Nat → E → Prop
  | _, .id => True
  | _, .int => True
  | _, .paren e => CanonE 1 e
  | _, .pre _ e => CanonE 255 e
  | bp, .bin o l r =>
      bp ≤ o.pow ∧ CanonE (o.pow + 1) r ∧
      (match l with
        | .bin o' _ _ => o.pow < o'.pow + 1 ∧ CanonE bp l
        | _ => CanonE bp l)

/-- the tokens, the token after them and the pending loops, at absolute position `q` -/
structure Fits (t : E) (s : P) (q : Nat) : Prop where
  tk : Toks s q (toks t)
  endOK : EndOK t (s.kindAt (q + (toks t).length))
  right : RightStops t s (q + (toks t).length)

/-! ### facts about `toks` and `evs` -/

theorem toks_first (t : E) : ∃ k j ts, toks t = (k, j) :: ts ∧ operandFirst k = true := by
  induction t with
  | id => exact ⟨_, _, _, rfl, rfl⟩
  | int => exact ⟨_, _, _, rfl, rfl⟩
  | pre o e ih => cases o <;> exact ⟨_, _, _, rfl, rfl⟩
  | paren e ih => exact ⟨_, _, _, rfl, rfl⟩
  | bin o l r ihl ihr =>
    obtain ⟨k, j, ts, h, hk⟩ := ihl
    exact ⟨k, j, ts ++ (o.toks ++ toks r), by simp [toks, h], hk⟩

theorem toks_pos (t : E) : 1 ≤ (toks t).length := by
  obtain ⟨k, j, ts, h, _⟩ := toks_first t
  rw [h]; simp

theorem rootOff_lt (t : E) : rootOff t + 1 < len t := by
  cases t with
  | bin o l r => have := len_pos l; have := len_pos r; simp only [rootOff, len]; omega
  | _ => simp only [rootOff, len] <;> first | omega | (have := len_pos ‹E›; omega)

/-- the root `Start` -/
theorem body_root (t : E) (fp : Option Nat) : (body t fp)[rootOff t]? = some (.start t.kind fp) := by
  cases t with
  | bin o l r =>
    have h := body_length l (some (len l - 1 - rootOff l))
    rw [show rootOff (E.bin o l r) = len l - 1 from rfl]
    simp only [body, E.kind]
    rw [List.getElem?_append_right (by omega)]
    rw [show len l - 1 - (body l (some (len l - 1 - rootOff l))).length = 0 by omega]
    rfl
  | _ => rfl

/-- changing the forward-parent link of the root -/
theorem body_set_root (t : E) (fp fp' : Option Nat) :
    (body t fp).set (rootOff t) (.start t.kind fp') = body t fp' := by
  cases t with
  | bin o l r =>
    have h := body_length l (some (len l - 1 - rootOff l))
    rw [show rootOff (E.bin o l r) = len l - 1 from rfl]
    simp only [body, E.kind]
    rw [List.set_append_right _ _ (by omega)]
    rw [show len l - 1 - (body l (some (len l - 1 - rootOff l))).length = 0 by omega]
    rfl
  | _ => rfl

theorem evs_root (t : E) : (evs t)[rootOff t + 1]? = some (.start t.kind none) := by
  simp only [evs, List.getElem?_cons_succ, body_root]

theorem evs_set_root (t : E) (fp : Option Nat) :
    (evs t).set (rootOff t + 1) (.start t.kind fp) = tombLink :: body t fp := by
  simp only [evs, List.set_cons_succ, body_set_root]

/-! ### rebasing overlay states -/

theorem ov_ov (s : P) (A B : List Ev) (da sa ba la db sb bb lb : Nat) (pa pb : List Nat) :
    (s.ov A da sa ba la pa).ov B db sb bb lb pb = s.ov (A ++ B) (da + db) sb bb lb pb := by
  simp only [P.ov, Nat.add_assoc, Array.append_assoc, List.append_toArray]

/-- the state with one event replaced -/
def _root_.Oq3.Parser.P.setEv (s : P) (i : Nat) (e : Ev) : P := { s with events := s.events.set! i e }

@[simp] theorem setEv_kindAt (s : P) (i : Nat) (e : Ev) (j : Nat) : (s.setEv i e).kindAt j = s.kindAt j := rfl
@[simp] theorem setEv_pos (s : P) (i : Nat) (e : Ev) : (s.setEv i e).pos = s.pos := rfl
@[simp] theorem setEv_kinds (s : P) (i : Nat) (e : Ev) : (s.setEv i e).kinds = s.kinds := rfl
@[simp] theorem setEv_joint (s : P) (i : Nat) (e : Ev) : (s.setEv i e).joint = s.joint := rfl
@[simp] theorem setEv_npl (s : P) (i : Nat) (e : Ev) : (s.setEv i e).noProgressLimit = s.noProgressLimit := rfl
@[simp] theorem setEv_stepLimit (s : P) (i : Nat) (e : Ev) : (s.setEv i e).stepLimit = s.stepLimit := rfl
@[simp] theorem setEv_size (s : P) (i : Nat) (e : Ev) : (s.setEv i e).events.size = s.events.size := by
  simp [P.setEv]

theorem setEv_ov_ov (s : P) (A B : List Ev) (i : Nat) (e : Ev) (da sa ba la db sb bb lb : Nat)
    (pa pb : List Nat) :
    ((s.ov A da sa ba la pa).setEv (s.events.size + i) e).ov B db sb bb lb pb =
      s.ov (A.set i e ++ B) (da + db) sb bb lb pb := by
  simp only [P.ov, P.setEv, Nat.add_assoc, ov_set, Array.append_assoc, List.append_toArray]

@[simp] theorem ov_kindAt (s : P) (E : List Ev) (dp st sb lv : Nat) (pr : List Nat) (j : Nat) :
    (s.ov E dp st sb lv pr).kindAt j = s.kindAt j := rfl

theorem Toks_kinds (s s' : P) (hk : s'.kinds = s.kinds) (hj : s'.joint = s.joint) (q : Nat)
    (ts : List (SyntaxKind × Bool)) : Toks s' q ts ↔ Toks s q ts := by
  induction ts generalizing q with
  | nil => simp [Toks]
  | cons x xs ih => obtain ⟨k, j⟩ := x; simp only [Toks, ih, P.kindAt, hk, hj]

theorem StopsAt_kinds (s s' : P) (hk : s'.kinds = s.kinds) (hj : s'.joint = s.joint) (q bp : Nat) :
    StopsAt s' q bp ↔ StopsAt s q bp := by
  simp only [StopsAt, hk, hj]

theorem RightStops_kinds (s s' : P) (hk : s'.kinds = s.kinds) (hj : s'.joint = s.joint) (t : E) (q : Nat) :
    RightStops t s' q ↔ RightStops t s q := by
  induction t with
  | bin o l r ihl ihr => simp only [RightStops, ihr, StopsAt_kinds s s' hk hj]
  | pre o e ih => simp only [RightStops, ih, StopsAt_kinds s s' hk hj]
  | _ => simp only [RightStops]

theorem Fits_kinds (s s' : P) (hk : s'.kinds = s.kinds) (hj : s'.joint = s.joint) (t : E) (q : Nat) :
    Fits t s' q ↔ Fits t s q := by
  constructor
  · rintro ⟨a, b, c⟩
    exact ⟨(Toks_kinds s s' hk hj _ _).1 a, by simpa only [P.kindAt, hk] using b,
      (RightStops_kinds s s' hk hj _ _).1 c⟩
  · rintro ⟨a, b, c⟩
    exact ⟨(Toks_kinds s s' hk hj _ _).2 a, by simpa only [P.kindAt, hk] using b,
      (RightStops_kinds s s' hk hj _ _).2 c⟩

/-! ### the loop of `expr_bp` -/

theorem of_ov {α} (x : G α) (s : P) (r : Except Outcome (α × P))
    (h : x (s.ov [] 0 s.steps s.sinceBump s.live s.protectedPos) = r) : x s = r := by
  rwa [P.ov_base] at h

/-- `CompletedMarker::precede` on a marker that lies in the base part of an overlay state -/
theorem precede_base (s : P) (hnp : s.noProgressLimit = 0) (p : Nat) (k kc : SyntaxKind)
    (fp0 : Option Nat) (hp : s.events[p]? = some (.start k fp0))
    (E : List Ev) (dp st sb lv : Nat) (pr : List Nat) :
    CompletedMarker.precede ⟨p, kc⟩ (s.ov E dp st sb lv pr) =
      .ok ({ pos := s.events.size + E.length, isFp := true },
        (s.setEv p (.start k (some (s.events.size + E.length - p)))).ov
          (E ++ [.start .TOMBSTONE none]) dp st (sb + 1) (lv + 1) ((s.events.size + E.length) :: pr)) := by
  have hlt : p < s.events.size := by
    rcases Nat.lt_or_ge p s.events.size with h | h
    · exact h
    · rw [Array.getElem?_eq_none h] at hp; cases hp
  rw [precede_eq, hookTrip_ov s E dp st sb lv pr hnp]
  simp only [Bool.false_eq_true, if_false]
  have h1 : (s.ov E dp st sb lv pr).started.events[p]? = some (.start k fp0) := by
    simp only [P.started, P.ov, ov_push]
    rw [Array.getElem?_append_left hlt]; exact hp
  rw [h1]
  have h2 : ¬ ((s.ov E dp st sb lv pr).events.size < p) := by
    simp only [P.ov, ov_size]; omega
  simp only [h2, if_false]
  simp only [P.started, P.ov, P.setEv, ov_push, ov_size, Ev.tombstone]
  congr 2
  simp only [P.mk.injEq, true_and, and_true]
  apply Array.ext'
  simp [Array.set!, List.set_append_left, hlt]

/-- the loop of `expr_bp` stops when `current_op` binds weaker than `bp` -/
theorem loop_stop (s : P) (E : List Ev) (dp st sb lv : Nat) (pr : List Nat) (g bp : Nat)
    (r : Restrictions) (cm : CompletedMarker) (h : StopsAt s (s.pos + dp) bp) :
    exprBpLoop (g + 1) r bp cm (s.ov E dp st sb lv pr) =
      .ok (some (cm, .notBlock), s.ov E dp st sb lv pr) := by
  unfold StopsAt at h
  have hcur := currentOp_ov s E dp st sb lv pr
  generalize opF s.kinds s.joint (s.pos + dp) = x at h hcur
  obtain ⟨pw, op, as⟩ := x
  have hlt : (pw < bp) = True := eq_true h
  show _ = _
  sym_eval [hcur, hlt]
  rfl

theorem loop_iter (s : P) (hnp : s.noProgressLimit = 0) (hpr : ∀ p ∈ s.protectedPos, p < s.events.size)
    (p : Nat) (k kc : SyntaxKind) (fp0 : Option Nat) (hp : s.events[p]? = some (.start k fp0))
    (o : BinOp) (ho : Toks s s.pos o.toks) (hnext : operandFirst (s.kindAt (s.pos + o.pieces.length)) = true)
    (bp : Nat) (hbp : bp ≤ o.pow) (f : Nat) (r' : Restrictions)
    (cmr : CompletedMarker) (Er : List Ev) (nr sbr : Nat)
    (hr : exprBp f none { preferStmt := false } (o.pow + 1)
        ((s.setEv p (Ev.start k (some (s.events.size + 0 - p)))).ov
          [Ev.start SyntaxKind.TOMBSTONE none, Ev.token o.kind o.pieces.length] (0 + o.pieces.length) 0 1 (s.live + 1)
          ((s.events.size + 0) :: s.protectedPos)) =
      .ok (some (cmr, .notBlock), (s.setEv p (Ev.start k (some (s.events.size + 0 - p)))).ov
          ([Ev.start SyntaxKind.TOMBSTONE none, Ev.token o.kind o.pieces.length] ++ Er) (0 + o.pieces.length + nr) 0 sbr
          (s.live + 1) ((s.events.size + 0) :: s.protectedPos)))
    (a) (S'' : P)
    (hk : exprBpLoop f r' bp { pos := s.events.size + 0, kind := SyntaxKind.BIN_EXPR }
        ((s.setEv p (Ev.start k (some (s.events.size + 0 - p)))).ov
          (Ev.start SyntaxKind.BIN_EXPR none :: Ev.token o.kind o.pieces.length :: (Er ++ [Ev.finish]))
          (0 + o.pieces.length + nr) 0 (sbr + 1) s.live s.protectedPos) = .ok (a, S'')) :
    exprBpLoop (f + 1) r' bp ⟨p, kc⟩ s = .ok (a, S'') := by
  have hcur : ∀ E st sb lv pr, currentOp (s.ov E 0 st sb lv pr) =
      .ok ((o.pow, o.kind, Assoc.left), s.ov E 0 st sb lv pr) := by
    intro E st sb lv pr
    rw [currentOp_ov, opF_binop o s (s.pos + 0) ho hnext]
  have hlt : (o.pow < bp) = False := eq_false (by omega)
  have hpre := precede_base s hnp p k kc fp0 hp
  have hbump := fun E st sb lv pr => bump_atF_ov o.kind o.kind_ne_eof (s.setEv p (.start k (some (s.events.size + 0 - p)))) E 0 st sb lv pr
    (atF_binop o s (s.pos + 0) ho)
  simp only [o.eatRaw] at hbump
  have hcomp := fun E dp st sb lv pr i b kind =>
    complete_ov (s.setEv p (.start k (some (s.events.size + 0 - p)))) E dp st sb lv pr hnp i b kind
  simp only [setEv_size] at hcomp
  apply of_ov
  sym_eval [hcur, hlt, hpre, hbump, hr, hcomp, hk, o.kind_ne_eq, setEv_size, setEv_kindAt, setEv_pos, setEv_npl, setEv_stepLimit,
    filter_base s hpr, contains_base s hpr, bne_self_eq_false]
  rfl

/-! ### the round trip, by induction on the tree -/

/-- continuation form of the round trip for one tree, from a base state -/
def MBase (t : E) : Prop :=
  ∀ (bp f : Nat) (r : Restrictions) (s : P) (a : Option (CompletedMarker × BlockLike)) (S'' : P),
    s.noProgressLimit = 0 → s.steps ≤ s.stepLimit → (∀ p ∈ s.protectedPos, p < s.events.size) →
    Fits t s s.pos → CanonE bp t → need t ≤ f →
    exprBpLoop f r bp ⟨s.events.size + (rootOff t + 1), t.kind⟩
      (s.ov (evs t) (toks t).length 0 (sbOf t) s.live s.protectedPos) = .ok (a, S'') →
    exprBp (f + cF t) none r bp s = .ok (a, S'')

/-- value form of the round trip for one tree, from an overlay state -/
def VOv (t : E) : Prop :=
  ∀ (bp f : Nat) (r : Restrictions) (s : P) (E0 : List Ev) (dp st sb lv : Nat) (pr : List Nat),
    s.noProgressLimit = 0 → st ≤ s.stepLimit → (∀ p ∈ pr, p < s.events.size + E0.length) →
    Fits t s (s.pos + dp) → CanonE bp t → StopsAt s (s.pos + dp + (toks t).length) bp →
    need t + cF t ≤ f →
    exprBp f none r bp (s.ov E0 dp st sb lv pr) =
      .ok (some (⟨s.events.size + E0.length + (rootOff t + 1), t.kind⟩, .notBlock),
        s.ov (E0 ++ evs t) (dp + (toks t).length) 0 (sbOf t) lv pr)

theorem VOv_of_MBase (t : E) (h : MBase t) : VOv t := by
  intro bp f r s E0 dp st sb lv pr hnp hst hpr hfit hcan hstop hf
  have hn := need_ge t
  obtain ⟨g, rfl⟩ : ∃ g, f = (g + 1) + cF t := ⟨f - cF t - 1, by omega⟩
  have e1 : (s.ov E0 dp st sb lv pr).events.size = s.events.size + E0.length := ov_size _ _
  have hfit' : Fits t (s.ov E0 dp st sb lv pr) (s.ov E0 dp st sb lv pr).pos :=
    (Fits_kinds s (s.ov E0 dp st sb lv pr) rfl rfl t _).2 hfit
  have hstop' : StopsAt (s.ov E0 dp st sb lv pr) ((s.ov E0 dp st sb lv pr).pos + (toks t).length) bp :=
    (StopsAt_kinds s (s.ov E0 dp st sb lv pr) rfl rfl _ _).2 hstop
  have := h bp (g + 1) r (s.ov E0 dp st sb lv pr) _ _ hnp hst (by rw [e1]; exact hpr) hfit' hcan (by omega)
    (loop_stop (s.ov E0 dp st sb lv pr) (evs t) (toks t).length 0 (sbOf t) lv pr g bp r _ hstop')
  rw [this, ov_ov, e1]

theorem M_id : MBase .id := by
  intro bp f r s a S'' hnp hst hpr hfit hcan hf hloop
  obtain ⟨g, rfl⟩ : ∃ g, f = g + 2 := ⟨f - 2, by simp only [need] at hf; omega⟩
  obtain ⟨⟨h0, -, -⟩, ⟨e3, e4, e1, e2⟩, -⟩ := hfit
  have hloop' : exprBpLoop (g + 2) r bp ⟨s.events.size + 1, .IDENTIFIER⟩
      (s.ov [.start .TOMBSTONE (some 1), .start .IDENTIFIER none, .token .IDENT 1, .finish] 1 0 2
        s.live s.protectedPos) = .ok (a, S'') := hloop
  rw [show s.pos = s.pos + 0 from rfl] at h0
  change s.kindAt (s.pos + 1) ≠ _ at e1 e2 e3 e4
  show exprBp (g + 2 + 1) none r bp s = _
  apply of_ov
  sym_eval [filter_base s hpr, contains_base s hpr, h0, e1, e2, e3, e4, hloop']
  rfl

theorem M_int : MBase .int := by
  intro bp f r s a S'' hnp hst hpr hfit hcan hf hloop
  obtain ⟨g, rfl⟩ : ∃ g, f = g + 2 := ⟨f - 2, by simp only [need] at hf; omega⟩
  obtain ⟨⟨h0, -, -⟩, ⟨e3, e4, e1⟩, -⟩ := hfit
  have hloop' : exprBpLoop (g + 2) r bp ⟨s.events.size + 1, .LITERAL⟩
      (s.ov [.start .TOMBSTONE (some 1), .start .LITERAL none, .token .INT_NUMBER 1, .finish] 1 0 2
        s.live s.protectedPos) = .ok (a, S'') := hloop
  rw [show s.pos = s.pos + 0 from rfl] at h0
  change s.kindAt (s.pos + 1) ≠ _ at e1 e3 e4
  show exprBp (g + 2 + 1) none r bp s = _
  apply of_ov
  sym_eval [filter_base s hpr, contains_base s hpr, h0, e1, e3, e4, hloop']
  rfl


theorem M_pre (o : PreOp) (e : E) (ih : MBase e) : MBase (.pre o e) := by
  intro bp f r s a S'' hnp hst hpr hfit hcan hf hloop
  obtain ⟨g, rfl⟩ : ∃ g, f = g + 1 := ⟨f - 1, by simp only [need] at hf; omega⟩
  have hg : need e + cF e ≤ g := by simp only [need] at hf; omega
  obtain ⟨htk, hend, hright⟩ := hfit
  simp only [toks, Toks, List.length_cons] at htk hend hright
  obtain ⟨h0, -, htk⟩ := htk
  have hfit' : Fits e s (s.pos + 1) :=
    ⟨htk, by rw [Nat.add_assoc, Nat.add_comm 1]; exact hend,
      by rw [Nat.add_assoc, Nat.add_comm 1]; exact hright.2⟩
  have hpr' : ∀ n, ∀ p ∈ s.protectedPos, p < s.events.size + n := fun n p hp => Nat.lt_add_right n (hpr p hp)
  have hsub := fun st sb lv E0 h1 => VOv_of_MBase e ih 255 g r s E0 1 st sb lv s.protectedPos hnp h1 (hpr' _) hfit' hcan
    (by rw [Nat.add_assoc, Nat.add_comm 1]; exact hright.1) hg
  rw [show s.pos = s.pos + 0 from rfl] at h0
  have hloop' : exprBpLoop (g + 1) r bp ⟨s.events.size + 1, .PREFIX_EXPR⟩
      (s.ov (.start .TOMBSTONE (some 1) :: .start .PREFIX_EXPR none :: .token o.kind 1 :: (evs e ++ [.finish]))
        (1 + (toks e).length) 0 (sbOf e + 1) s.live s.protectedPos) = .ok (a, S'') := by
    rw [show (toks (.pre o e)).length = 1 + (toks e).length from by simp only [toks, List.length_cons, Nat.add_comm]]
      at hloop
    exact hloop
  show exprBp (g + 1 + 1) none r bp s = _
  apply of_ov
  cases o <;> simp only [PreOp.kind] at h0 hloop' <;>
  (sym_eval [filter_base s hpr, contains_base s hpr, h0, hsub, hloop']; rfl)

theorem rightStops_zero (t : E) (s : P) (q : Nat) (h : (opF s.kinds s.joint q).1 = 0) : RightStops t s q := by
  induction t with
  | bin o l r ihl ihr => exact ⟨by unfold StopsAt; omega, ihr⟩
  | pre o e ih => exact ⟨by unfold StopsAt; omega, ih⟩
  | _ => trivial

theorem M_paren (e : E) (ih : MBase e) : MBase (.paren e) := by
  intro bp f r s a S'' hnp hst hpr hfit hcan hf hloop
  obtain ⟨g, rfl⟩ : ∃ g, f = g + 5 := ⟨f - 5, by simp only [need] at hf; omega⟩
  have hg : need e + cF e ≤ g := by simp only [need] at hf; omega
  obtain ⟨htk, hend, hright⟩ := hfit
  simp only [toks, Toks, List.length_cons, List.length_append, List.length_nil, Toks_append] at htk hend
  obtain ⟨h0, -, htk, hrp, -, -⟩ := htk
  have hop : opF s.kinds s.joint (s.pos + 1 + (toks e).length) = notAnOp :=
    opF_nonop _ _ _ (by rw [show s.kinds.getD _ .EOF = _ from hrp]; decide)
  have hfit' : Fits e s (s.pos + 1) :=
    ⟨htk, by rw [hrp]; unfold EndOK; refine ⟨by decide, by decide, ?_⟩; cases last e <;> simp,
      rightStops_zero e s _ (by rw [hop]; rfl)⟩
  have hpr' : ∀ n, ∀ p ∈ s.protectedPos, p < s.events.size + n := fun n p hp => Nat.lt_add_right n (hpr p hp)
  have hsub := fun st sb lv E0 h1 => VOv_of_MBase e ih 1 g { preferStmt := false } s E0 1 st sb lv s.protectedPos hnp h1 (hpr' _) hfit' hcan
    (by unfold StopsAt; rw [hop]; decide) hg
  rw [show s.pos = s.pos + 0 from rfl] at h0
  obtain ⟨k1, j1, ts, hts, hk1⟩ := toks_first e
  rw [hts] at htk
  obtain ⟨h1, -, -⟩ := htk
  rw [Nat.add_assoc] at hrp
  have hend' : EndOK (.paren e) (s.kindAt (s.pos + (1 + (toks e).length + 1))) := by
    rw [show 1 + (toks e).length + 1 = (toks e).length + 1 + 1 by omega]; exact hend
  obtain ⟨e3, e4, -⟩ := hend'
  have hE : evs (.paren e) = .start .TOMBSTONE (some 1) :: .start .PAREN_EXPR none :: .token .L_PAREN 1 ::
      (evs e ++ [.token .R_PAREN 1] ++ [.finish]) := by
    simp only [evs, body, tombLink, List.cons_append, List.nil_append, List.append_assoc]
  have hn : (toks (.paren e)).length = 1 + (toks e).length + 1 := by
    simp only [toks, List.length_cons, List.length_append, List.length_nil]; omega
  rw [hE, hn] at hloop
  have hloop' : exprBpLoop (g + 5) r bp ⟨s.events.size + 1, .PAREN_EXPR⟩
      (s.ov (.start .TOMBSTONE (some 1) :: .start .PAREN_EXPR none :: .token .L_PAREN 1 ::
        (evs e ++ [.token .R_PAREN 1] ++ [.finish])) (1 + (toks e).length + 1) 0 2 s.live s.protectedPos) =
      .ok (a, S'') := hloop
  show exprBp (g + 5 + 1) none r bp s = _
  apply of_ov
  simp only [operandFirst, Bool.or_eq_true, beq_iff_eq] at hk1
  rcases hk1 with ((((hk | hk) | hk) | hk) | hk) | hk <;> subst hk <;>
  sym_eval [filter_base s hpr, contains_base s hpr, h0, h1, hrp, e3, e4, hsub, hloop'] <;> rfl

theorem stopsAt_mono (s : P) (q b b' : Nat) (h : StopsAt s q b) (hb : b ≤ b') : StopsAt s q b' := by
  unfold StopsAt at *; omega

/-- canonical trees: a weaker operator after the tree stops every pending loop -/
theorem rightStops_of_canon (t : E) (b : Nat) (s : P) (q : Nat) (hc : CanonE b t)
    (h : StopsAt s q b) (hb : b ≤ 255) : RightStops t s q := by
  induction t generalizing b with
  | id => trivial
  | int => trivial
  | paren e ih => trivial
  | pre o e ih =>
    simp only [CanonE] at hc
    exact ⟨stopsAt_mono s q b 255 h hb, ih 255 hc (stopsAt_mono s q b 255 h hb) (Nat.le_refl _)⟩
  | bin o l r ihl ihr =>
    simp only [CanonE] at hc
    have h' := stopsAt_mono s q b (o.pow + 1) h (by omega)
    exact ⟨h', ihr (o.pow + 1) hc.2.1 h' (by have := o.pow_lt; omega)⟩

theorem M_bin (o : BinOp) (l r : E) (ihl : MBase l) (ihr : MBase r) : MBase (.bin o l r) := by
  intro bp f r' s a S'' hnp hst hpr hfit hcan hf hloop
  simp only [need] at hf
  obtain ⟨htk, hend, hright⟩ := hfit
  simp only [toks, Toks_append, List.length_append, BinOp.pieces_length] at htk hend hright
  obtain ⟨htl, hto, htr⟩ := htk
  simp only [CanonE] at hcan
  obtain ⟨hbp, hcr, hcl⟩ := hcan
  obtain ⟨kr, jr, tsr, htsr, hkr⟩ := toks_first r
  have hnext : operandFirst (s.kindAt (s.pos + (toks l).length + o.pieces.length)) = true := by
    rw [htsr] at htr; rw [htr.1]; exact hkr
  have hop := opF_binop o s _ hto hnext
  -- the left operand
  have hcl' : CanonE bp l := by cases l <;> first | exact hcl | exact hcl.2
  have hfitl : Fits l s s.pos := by
    refine ⟨htl, ?_, ?_⟩
    · obtain ⟨k, j, ts, hk, h1, h2, h3, h4⟩ := o.first_tok
      rw [hk] at hto
      rw [hto.1]
      unfold EndOK
      refine ⟨h1, h2, ?_⟩
      cases last l
      · exact ⟨h3, h4⟩
      · exact h3
      · trivial
    · cases l with
      | id => trivial
      | int => trivial
      | paren e => trivial
      | pre o' e' =>
        simp only [CanonE] at hcl
        have h255 : StopsAt s (s.pos + (toks (E.pre o' e')).length) 255 := by
          unfold StopsAt; rw [hop]; exact o.pow_lt
        exact ⟨h255, rightStops_of_canon e' 255 s _ hcl h255 (Nat.le_refl _)⟩
      | bin o' l' r' =>
        obtain ⟨hlt, hcl2⟩ := hcl
        simp only [CanonE] at hcl2
        have hs : StopsAt s (s.pos + (toks (E.bin o' l' r')).length) (o'.pow + 1) := by
          unfold StopsAt; rw [hop]; exact hlt
        exact ⟨hs, rightStops_of_canon r' (o'.pow + 1) s _ hcl2.2.1 hs (by have := o'.pow_lt; omega)⟩
  show exprBp (f + (cF l + 1)) none r' bp s = _
  rw [show f + (cF l + 1) = (f + 1) + cF l by omega]
  apply ihl bp (f + 1) r' s a S'' hnp hst hpr hfitl hcl' (by omega)
  -- one iteration of the loop, from the state after the left operand
  have hlen := len_pos l
  have hroot := rootOff_lt l
  generalize hs₁ : s.ov (evs l) (toks l).length 0 (sbOf l) s.live s.protectedPos = s₁
  have h1k : s₁.kinds = s.kinds := by rw [← hs₁]; rfl
  have h1j : s₁.joint = s.joint := by rw [← hs₁]; rfl
  have h1p : s₁.pos = s.pos + (toks l).length := by rw [← hs₁]; rfl
  have h1n : s₁.noProgressLimit = 0 := by rw [← hs₁]; exact hnp
  have h1l : s₁.live = s.live := by rw [← hs₁]; rfl
  have h1pr : s₁.protectedPos = s.protectedPos := by rw [← hs₁]; rfl
  have hsz : s₁.events.size = s.events.size + len l := by rw [← hs₁, ← evs_length]; exact ov_size _ _
  have hp : s₁.events[s.events.size + (rootOff l + 1)]? = some (.start l.kind none) := by
    rw [← hs₁]
    show (s.events ++ (evs l).toArray)[s.events.size + (rootOff l + 1)]? = _
    rw [ov_get, evs_root]
  -- the right operand, from the rebased state
  have hfitr : Fits r s (s.pos + (toks l).length + o.pieces.length) :=
    ⟨htr, by rw [Nat.add_assoc, Nat.add_assoc]; exact hend,
      by rw [Nat.add_assoc, Nat.add_assoc]; exact hright.2⟩
  have hstopr : StopsAt s (s.pos + (toks l).length + o.pieces.length + (toks r).length) (o.pow + 1) := by
    rw [Nat.add_assoc, Nat.add_assoc]; exact hright.1
  generalize hs₂ : s₁.setEv (s.events.size + (rootOff l + 1))
    (.start l.kind (some (s₁.events.size + 0 - (s.events.size + (rootOff l + 1))))) = s₂
  have h2k : s₂.kinds = s.kinds := by rw [← hs₂]; exact h1k
  have h2j : s₂.joint = s.joint := by rw [← hs₂]; exact h1j
  have h2p : s₂.pos = s.pos + (toks l).length := by rw [← hs₂]; exact h1p
  have h2n : s₂.noProgressLimit = 0 := by rw [← hs₂]; exact h1n
  have h2sz : s₂.events.size = s.events.size + len l := by rw [← hs₂, setEv_size]; exact hsz
  have hr := VOv_of_MBase r ihr (o.pow + 1) f { preferStmt := false } s₂
    [.start .TOMBSTONE none, .token o.kind o.pieces.length] (0 + o.pieces.length) 0 1 (s₁.live + 1)
    ((s₁.events.size + 0) :: s₁.protectedPos) h2n (Nat.zero_le _)
    (by
      intro p hp
      simp only [h2sz, hsz, h1pr, List.length_cons, List.length_nil] at hp ⊢
      rcases List.mem_cons.1 hp with h | h
      · omega
      · have := hpr p h; omega)
    ((Fits_kinds s s₂ h2k h2j r _).2 (by rw [h2p, Nat.zero_add]; exact hfitr)) hcr
    ((StopsAt_kinds s s₂ h2k h2j _ _).2 (by rw [h2p, Nat.zero_add]; exact hstopr)) (by omega)
  have h1tk : Toks s₁ s₁.pos o.toks := (Toks_kinds s s₁ h1k h1j _ _).2 (by rw [h1p]; exact hto)
  have h1next : operandFirst (s₁.kindAt (s₁.pos + o.pieces.length)) = true := by
    rw [h1p]; simp only [P.kindAt, h1k]; exact hnext
  refine loop_iter s₁ h1n (by intro p hp; rw [h1pr] at hp; rw [hsz]; exact Nat.lt_add_right _ (hpr p hp))
    _ l.kind l.kind none hp o h1tk h1next bp hbp f r' _ (evs r) (toks r).length (sbOf r)
    (by rw [hs₂]; exact hr) a S'' ?hk
  case hk =>
    have eP : s₁.events.size + 0 = s.events.size + (rootOff (E.bin o l r) + 1) := by
      rw [hsz]; show _ = s.events.size + (len l - 1 + 1); omega
    have eD : s₁.events.size + 0 - (s.events.size + (rootOff l + 1)) = len l - 1 - rootOff l := by
      rw [hsz]; omega
    have eS : s₂.ov (Ev.start SyntaxKind.BIN_EXPR none :: Ev.token o.kind o.pieces.length :: (evs r ++ [Ev.finish]))
        (0 + o.pieces.length + (toks r).length) 0 (sbOf r + 1) s₁.live s₁.protectedPos =
        s.ov (evs (E.bin o l r)) (toks (E.bin o l r)).length 0 (sbOf (E.bin o l r)) s.live s.protectedPos := by
      rw [h1l, h1pr, ← hs₂, eD, ← hs₁, setEv_ov_ov, evs_set_root]
      have e1 : (tombLink :: body l (some (len l - 1 - rootOff l))) ++
          (Ev.start SyntaxKind.BIN_EXPR none :: Ev.token o.kind o.pieces.length :: (evs r ++ [Ev.finish])) =
          evs (E.bin o l r) := by
        simp only [evs, body, List.cons_append, List.nil_append, List.append_assoc]
      have e2 : (toks l).length + (0 + o.pieces.length + (toks r).length) = (toks (E.bin o l r)).length := by
        simp only [toks, List.length_append, BinOp.pieces_length]; omega
      rw [e1, e2]
      rfl
    rw [hs₂, eP, eS]
    exact hloop

/-- **continuation form of the event-level round trip**: parsing the print of `t` at level `bp`
pushes `evs t` and continues the loop of `expr_bp` with the root of `t` as `lhs` -/
theorem exprBp_cps (t : E) : MBase t := by
  induction t with
  | id => exact M_id
  | int => exact M_int
  | bin o l r ihl ihr => exact M_bin o l r ihl ihr
  | pre o e ih => exact M_pre o e ih
  | paren e ih => exact M_paren e ih

end Oq3.PrattEv
