/-
Weakest preconditions for runs of the parser monad, parametrised by the set `A` of error outcomes
that are tolerated, and the rules for the API primitives that do not concern markers.

`wp A x Q s`: the run `x s` either succeeds with a value and state satisfying `Q`, or fails with
an outcome in `A`.  Used by `Lemmas/SafeTok.lean` / `GrammarSafeTok.lean` (token-level assertions)
and `Lemmas/SafeMark.lean` / `GrammarSafeMark.lean` (marker discipline).
-/
import Oq3.Lemmas.Run
set_option linter.unusedSimpArgs false

namespace Oq3.Parser
open Oq3.Gen

/-- the failure sites of the marker API -/
def markSites : List Outcome := [
  .panic "Marker::complete unreachable", .panic "Marker::abandon underflow",
  .panic "Marker::abandon unreachable", .panic "CompletedMarker::precede u32 underflow",
  .panic "CompletedMarker::precede unreachable", .panic "CompletedMarker::extend_to u32 underflow",
  .panic "CompletedMarker::extend_to unreachable",
  .modelError "Marker::complete: marker already completed", .modelError "Marker::complete with TOMBSTONE",
  .modelError "Marker::abandon of a forward-parent marker",
  .modelError "CompletedMarker::extend_to: not a completed marker"]

/-- the outcomes that are not assertion failures: the fuel of the model ran out, or one of the two
hang detectors fired (`PARSER_STEP_LIMIT` in `Parser::nth`, the `oq3_verif` no-progress hook) -/
def hangSites : List Outcome := [
  .fuel, .panic "Parser::nth the parser seems stuck", .panic "oq3_verif: no progress"]

/-- the condition on the result of a run -/
def post {α} (A : Outcome → Prop) (Q : α → P → Prop) : Except Outcome (α × P) → Prop
  | .ok (a, s') => Q a s'
  | .error o => A o

def wp {α} (A : Outcome → Prop) (x : G α) (Q : α → P → Prop) (s : P) : Prop :=
  post A Q (x s)

theorem wp_def' {α} {A : Outcome → Prop} {x : G α} {Q : α → P → Prop} {s : P} (h : post A Q (x s)) :
    wp A x Q s := h

section
variable {A : Outcome → Prop} {α β : Type} {s : P}

theorem wp_bind {x : G α} {f : α → G β} {Q : β → P → Prop}
    (h : wp A x (fun a s' => wp A (f a) Q s') s) : wp A (x >>= f) Q s := by
  unfold wp post at h ⊢
  rw [G.bind_apply]
  cases hx : x s with
  | error e => simpa [hx] using h
  | ok p => obtain ⟨a, s1⟩ := p; simpa [hx] using h

theorem wp_pure {a : α} {Q : α → P → Prop} (h : Q a s) : wp A (pure a : G α) Q s := h

theorem wp_conseq {x : G α} {Q0 Q : α → P → Prop} (h : wp A x Q0 s)
    (hq : ∀ a s', Q0 a s' → Q a s') : wp A x Q s := by
  unfold wp post at h ⊢
  cases hx : x s with
  | error e => simpa [hx] using h
  | ok p => obtain ⟨a, s1⟩ := p; rw [hx] at h; exact hq _ _ h

theorem wp_ite {c : Prop} [Decidable c] {x y : G α} {Q : α → P → Prop}
    (h1 : c → wp A x Q s) (h2 : ¬ c → wp A y Q s) : wp A (if c then x else y) Q s := by
  split
  · exact h1 ‹_›
  · exact h2 ‹_›

theorem wp_fail {o : Outcome} {Q : α → P → Prop} (h : A o) : wp A (fail o : G α) Q s := h
theorem wp_panic {site : String} {Q : α → P → Prop} (h : A (.panic site)) :
    wp A (panic site : G α) Q s := h

theorem wp_andM {x y : G Bool} {Q : Bool → P → Prop}
    (h : wp A x (fun b s' => if b = true then wp A y Q s' else Q false s') s) : wp A (x <&&> y) Q s := by
  unfold wp post at h ⊢
  rw [G.andM_apply]
  cases hx : x s with
  | error e => simpa [hx] using h
  | ok p =>
    obtain ⟨b, s1⟩ := p
    rw [hx] at h
    cases b
    · simpa using h
    · simpa [wp] using h

theorem wp_orM {x y : G Bool} {Q : Bool → P → Prop}
    (h : wp A x (fun b s' => if b = true then Q true s' else wp A y Q s') s) : wp A (x <||> y) Q s := by
  unfold wp post at h ⊢
  rw [G.orM_apply]
  cases hx : x s with
  | error e => simpa [hx] using h
  | ok p =>
    obtain ⟨b, s1⟩ := p
    rw [hx] at h
    cases b
    · simpa [wp] using h
    · simpa using h

theorem wp_notM {x : G Bool} {Q : Bool → P → Prop}
    (h : wp A x (fun b s' => Q (!b) s') s) : wp A (notM x) Q s := by
  unfold wp post at h ⊢
  rw [G.notM_apply]
  cases hx : x s with
  | error e => simpa [hx] using h
  | ok p => obtain ⟨b, s1⟩ := p; simpa [hx] using h

theorem wp_map {f : α → β} {x : G α} {Q : β → P → Prop}
    (h : wp A x (fun a s' => Q (f a) s') s) : wp A (f <$> x) Q s := by
  unfold wp post at h ⊢
  rw [G.map_apply]
  cases hx : x s with
  | error e => simpa [hx] using h
  | ok p => obtain ⟨a, s1⟩ := p; simpa [hx] using h

end

/-! ### the token view of a state and the pure form of `at` -/

/-- what the look-ahead primitives can see -/
def P.tv (s : P) : Array SyntaxKind × Array Bool × Nat := (s.kinds, s.joint, s.pos)

/-- `Parser::at` as a pure function of the input arrays and the position -/
def atF (k : SyntaxKind) (K : Array SyntaxKind) (J : Array Bool) (p : Nat) : Bool :=
  match compositePieces k with
  | none => K.getD p .EOF == k
  | some [k1, k2] => K.getD p .EOF == k1 && K.getD (p + 1) .EOF == k2 && J.getD p false
  | some [k1, k2, k3] =>
    K.getD p .EOF == k1 && K.getD (p + 1) .EOF == k2 && K.getD (p + 2) .EOF == k3
      && J.getD p false && J.getD (p + 1) false
  | _ => false

theorem isJoint_in_range (s : P) (i : Nat) (h : s.kindAt (i + 1) ≠ .EOF) :
    s.isJoint i = .ok (s.joint.getD i false) := by
  have := kindAt_ne_eof_lt s _ h
  unfold P.isJoint
  have c : i / 64 < (s.kinds.size + 63) / 64 := by omega
  simp only [c, if_true]

/-- **`at` is total**: it never fails — in particular `Input::is_joint` is only evaluated when
the next token exists (the conjunct order of `at_composite2/3`), and the composite table only
has 2- and 3-piece entries — and it does not change the state. -/
theorem at_total (k : SyntaxKind) (s : P) : at' k s = .ok (atF k s.kinds s.joint s.pos, s) := by
  unfold atF
  cases hc : compositePieces k with
  | none => rw [at_simple_eq k hc]; rfl
  | some ps =>
    obtain ⟨hlen, _, hne⟩ := tablesOK.1 k ps hc
    rcases ps with _ | ⟨k1, _ | ⟨k2, _ | ⟨k3, _ | ⟨k4, rest⟩⟩⟩⟩
    · simp at hlen
    · simp at hlen
    · rw [at_comp2_eq k k1 k2 hc]
      simp only
      by_cases hkk : (s.kindAt s.pos == k1 && s.kindAt (s.pos + 1) == k2) = true
      · simp only [hkk, if_true]
        have h2 : s.kindAt (s.pos + 1) ≠ .EOF := by
          simp only [Bool.and_eq_true, beq_iff_eq] at hkk
          rw [hkk.2]; exact (hne k2 (by simp)).1
        unfold P.jointRes
        rw [isJoint_in_range s _ h2]
        simp only [P.kindAt] at hkk
        simp only [hkk, Bool.true_and]
      · simp only [hkk, if_false]
        simp only [P.kindAt, Bool.not_eq_true] at hkk
        simp only [hkk, Bool.false_and, Bool.false_eq_true, if_false]
    · rw [at_comp3_eq k k1 k2 k3 hc]
      simp only
      by_cases hkk : (s.kindAt s.pos == k1 && s.kindAt (s.pos + 1) == k2 && s.kindAt (s.pos + 2) == k3) = true
      · simp only [hkk, if_true]
        have hkk' := hkk
        simp only [Bool.and_eq_true, beq_iff_eq] at hkk'
        have h2 : s.kindAt (s.pos + 1) ≠ .EOF := by rw [hkk'.1.2]; exact (hne k2 (by simp)).1
        have h3 : s.kindAt (s.pos + 1 + 1) ≠ .EOF := by
          rw [show s.pos + 1 + 1 = s.pos + 2 by omega, hkk'.2]; exact (hne k3 (by simp)).1
        rw [isJoint_in_range s _ h2]
        unfold P.jointRes
        rw [isJoint_in_range s _ h3]
        simp only [P.kindAt] at hkk
        simp only [hkk, Bool.true_and]
        cases hj : s.joint.getD s.pos false
        · simp only [Bool.false_and]
        · simp only [Bool.true_and]
      · simp only [hkk, if_false]
        simp only [P.kindAt, Bool.not_eq_true] at hkk
        simp only [hkk, Bool.false_and, Bool.false_eq_true, if_false]
    · simp at hlen

theorem atF_simple {k : SyntaxKind} (hc : compositePieces k = none) (K : Array SyntaxKind)
    (J : Array Bool) (p : Nat) : atF k K J p = (K.getD p .EOF == k) := by
  unfold atF; rw [hc]

section
variable {A : Outcome → Prop} {s : P}

theorem wp_at {k : SyntaxKind} {Q : Bool → P → Prop} (h : Q (atF k s.kinds s.joint s.pos) s) :
    wp A (at' k) Q s := by
  unfold wp post; rw [at_total]; exact h

theorem wp_current {Q : SyntaxKind → P → Prop} (h : Q (s.kindAt s.pos) s) : wp A current Q s := h

theorem wp_atTs {ts : TokenSet} {Q : Bool → P → Prop}
    (h : Q (decide ((s.kindAt s.pos).toNat < 128) && ts.contains (s.kindAt s.pos)) s) :
    wp A (atTs ts) Q s := by
  unfold wp post; rw [atTs_eq]; exact h

end

/-! ### dispatch on the head of the program (speeds up the generated proofs) -/

open Lean Elab Tactic Meta in
/-- goal `wp A prog Q s` with `prog` a call of a grammar function `f`: apply the specification of
`f` — the lemma `f_<sfx>` of a leaf function, or the field `ih.f` of the induction hypothesis —
through the rule of consequence -/
elab "wp_call " sfx:ident : tactic => withMainContext do
  let g ← getMainGoal
  let t ← whnfR (← instantiateMVars (← g.getType))
  unless t.isAppOfArity ``Oq3.Parser.wp 5 do throwError "wp_call: not a wp goal"
  let prog ← whnfR t.getAppArgs[2]!
  let .const fn _ := prog.getAppFn | throwError "wp_call: no head constant"
  unless (`Oq3.Grammar).isPrefixOf fn do throwError "wp_call: not a grammar function"
  let nargs := prog.getAppNumArgs
  let leafName := fn.appendAfter ("_" ++ sfx.getId.eraseMacroScopes.toString)
  let hole ← `(_)
  if (← getEnv).contains leafName then
    let us : Array (TSyntax `term) := Array.replicate (nargs + 1) hole
    evalTactic (← `(tactic| with_reducible refine wp_conseq ($(mkIdent leafName) $us* ?_) ?_))
  else
    let some short := fn.components.getLast? | throwError "wp_call: bad name"
    let us : Array (TSyntax `term) := Array.replicate nargs hole
    evalTactic (← `(tactic| with_reducible refine wp_conseq ($(mkIdent (`ih ++ short)) $us* ?_) ?_))

open Lean Elab Tactic Meta in
/-- goal `wp A prog Q s`: apply the rule registered for the head constant of `prog` -/
elab "wp_rule " "[" rules:(ident ident),* "]" : tactic => withMainContext do
  let g ← getMainGoal
  let t ← whnfR (← instantiateMVars (← g.getType))
  unless t.isAppOfArity ``Oq3.Parser.wp 5 do throwError "wp_rule: not a wp goal"
  let prog ← whnfR t.getAppArgs[2]!
  let .const fn _ := prog.getAppFn | throwError "wp_rule: no head constant"
  for r in rules.getElems do
    let hd := r.raw[0].getId.eraseMacroScopes
    let rule := r.raw[1]
    let hdFull ← try realizeGlobalConstNoOverload (mkIdent hd) catch _ => pure hd
    if hdFull == fn then
      evalTactic (← `(tactic| with_reducible apply $(⟨rule⟩)))
      return
  throwError "wp_rule: no rule for {fn}"

end Oq3.Parser
