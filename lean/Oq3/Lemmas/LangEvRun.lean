/-
C04 for a recursive reference language, part 2: runs of the grammar model on the pieces of a
statement.

`AccV x a s n E`: from the state `s`, the run of `x` succeeds with value `a`, consumes exactly `n`
tokens, pushes exactly `E` on top of `s.events` and leaves the marker bookkeeping as it found it
(the step counter does not grow).  Every lemma is proved from a BASE state (`Ready s`, tokens at
`s.pos`) by `sym_eval`, with the runs of the sub-phrases as rewrite rules, and is then available
on every overlay state `s.ov E0 dp …` (`AccV.at_ov`): that is how phrases whose markers bracket
event lists of unknown length are composed.
-/
import Oq3.Lemmas.PrattEvRun
import Oq3.Lemmas.LangEv
set_option linter.unusedSimpArgs false
set_option linter.unusedVariables false

namespace Oq3.LangEv
open Oq3.Gen Oq3.Parser Oq3.Grammar Oq3.SymExec Oq3.PrattEv

/-! ### acceptance from a state -/

def AccV {α} (x : G α) (a : α) (s : P) (n : Nat) (E : List Ev) : Prop :=
  ∃ st sb, st ≤ s.steps ∧ x s = .ok (a, s.ov E n st sb s.live s.protectedPos)

abbrev Acc (x : G Unit) (s : P) (n : Nat) (E : List Ev) : Prop := AccV x () s n E

/-- `Ready` with `k` look-aheads of room in the step counter (`Ready s` is `Rdy 8 s`) -/
structure Rdy (k : Nat) (s : P) : Prop where
  hook : s.noProgressLimit = 0
  steps : s.steps + k ≤ s.stepLimit
  prot : ∀ p ∈ s.protectedPos, p < s.events.size

theorem Rdy.of_ready {s : P} (h : Ready s) : Rdy 8 s := ⟨h.hook, h.steps, h.prot⟩

theorem Rdy.mono {k k' : Nat} {s : P} (h : Rdy k s) (hk : k' ≤ k) : Rdy k' s :=
  ⟨h.hook, by have := h.steps; omega, h.prot⟩

theorem Rdy_ov (k : Nat) (s : P) (E0 : List Ev) (dp st sb lv : Nat) (pr : List Nat)
    (hnp : s.noProgressLimit = 0) (hst : st + k ≤ s.stepLimit)
    (hpr : ∀ p ∈ pr, p < s.events.size + E0.length) : Rdy k (s.ov E0 dp st sb lv pr) :=
  ⟨hnp, hst, by intro p hp; show p < (s.events ++ E0.toArray).size; rw [ov_size]; exact hpr p hp⟩

/-- an acceptance from an overlay state, as an equation between overlay states of the same base -/
theorem AccV.at_ov {α} {x : G α} {a : α} {s : P} {E0 : List Ev} {dp st sb lv : Nat} {pr : List Nat}
    {n : Nat} {E : List Ev} (h : AccV x a (s.ov E0 dp st sb lv pr) n E) :
    ∃ st' sb', st' ≤ st ∧
      x (s.ov E0 dp st sb lv pr) = .ok (a, s.ov (E0 ++ E) (dp + n) st' sb' lv pr) := by
  obtain ⟨st', sb', hle, hx⟩ := h
  exact ⟨st', sb', hle, by rw [hx, ov_ov]; rfl⟩

theorem Toks_ov (s : P) (E0 : List Ev) (dp st sb lv : Nat) (pr : List Nat) (q : Nat) (ts : List Tok) :
    Toks (s.ov E0 dp st sb lv pr) q ts ↔ Toks s q ts :=
  Toks_kinds s (s.ov E0 dp st sb lv pr) rfl rfl q ts

theorem AccV.of_accepts {x : G Unit} {s : P} {n : Nat} {E : List Ev} (h : Oq3.Props.C04.Accepts x s n E) :
    Acc x s n E := by
  obtain ⟨_, sb, hx⟩ := h
  exact ⟨0, sb, Nat.zero_le _, hx⟩

/-- sequencing -/
theorem AccV.seq {α β} {x : G α} {y : α → G β} {a : α} {b : β} {s : P} {n1 n2 : Nat} {E1 E2 : List Ev}
    (h1 : AccV x a s n1 E1)
    (h2 : ∀ st sb, st ≤ s.steps → AccV (y a) b (s.ov E1 n1 st sb s.live s.protectedPos) n2 E2) :
    AccV (x >>= y) b s (n1 + n2) (E1 ++ E2) := by
  obtain ⟨st1, sb1, hle1, hx⟩ := h1
  obtain ⟨st2, sb2, hle2, hy⟩ := h2 st1 sb1 hle1
  refine ⟨st2, sb2, Nat.le_trans hle2 hle1, ?_⟩
  rw [G.bind_apply, hx]
  simp only
  rw [hy, ov_ov]
  rfl

/-! ### expressions inside statements -/

/-- the tokens that end an expression inside our statements -/
def exprEnd (k : SyntaxKind) : Bool :=
  k == .SEMICOLON || k == .R_PAREN || k == .COMMA || k == .R_BRACK || k == .COLON

theorem exprEnd_stops (s : P) (q bp : Nat) (h : exprEnd (s.kindAt q) = true) (hbp : 1 ≤ bp) :
    StopsAt s q bp := by
  unfold StopsAt
  rw [opF_nonop _ _ _ (by
    simp only [exprEnd, Bool.or_eq_true, beq_iff_eq, P.kindAt] at h
    rcases h with (((h | h) | h) | h) | h <;> rw [h] <;> decide)]
  exact hbp

theorem exprEnd_endOK (t : E) (k : SyntaxKind) (h : exprEnd k = true) : EndOK t k := by
  simp only [exprEnd, Bool.or_eq_true, beq_iff_eq] at h
  unfold EndOK
  rcases h with (((h | h) | h) | h) | h <;> subst h <;>
    exact ⟨by decide, by decide, by cases last t <;> simp⟩

/-- **the expression rule**: `expr_bp` at level `bp` on the print of a canonical tree, from an
overlay state, when the next token ends the expression -/
theorem exprBp_ov (t : E) (bp : Nat) (r : Restrictions) (s : P) (E0 : List Ev) (dp st sb lv : Nat)
    (pr : List Nat) (f : Nat)
    (hnp : s.noProgressLimit = 0) (hst : st ≤ s.stepLimit)
    (hpr : ∀ p ∈ pr, p < s.events.size + E0.length)
    (htk : Toks s (s.pos + dp) (toks t)) (hc : CanonE bp t) (hbp : 1 ≤ bp) (hbp2 : bp ≤ 255)
    (hfol : exprEnd (s.kindAt (s.pos + dp + (toks t).length)) = true)
    (hf : 6 * size t ≤ f) :
    exprBp f none r bp (s.ov E0 dp st sb lv pr) =
      .ok (some (⟨s.events.size + E0.length + (rootOff t + 1), t.kind⟩, .notBlock),
        s.ov (E0 ++ evs t) (dp + (toks t).length) 0 (sbOf t) lv pr) := by
  have hstop := exprEnd_stops s _ bp hfol hbp
  exact VOv_of_MBase t (exprBp_cps t) bp f r s E0 dp st sb lv pr hnp hst hpr
    ⟨htk, exprEnd_endOK t _ hfol, rightStops_of_canon t bp s _ hc hstop hbp2⟩ hc hstop
    (by have := fuel_bound t; omega)

/-- the same for the entry point `expr` -/
theorem expr_ov (t : E) (s : P) (E0 : List Ev) (dp st sb lv : Nat) (pr : List Nat) (f : Nat)
    (hnp : s.noProgressLimit = 0) (hst : st ≤ s.stepLimit)
    (hpr : ∀ p ∈ pr, p < s.events.size + E0.length)
    (htk : Toks s (s.pos + dp) (toks t)) (hc : CanonE 1 t)
    (hfol : exprEnd (s.kindAt (s.pos + dp + (toks t).length)) = true)
    (hf : 6 * size t ≤ f) :
    expr (f + 1) (s.ov E0 dp st sb lv pr) =
      .ok (some ⟨s.events.size + E0.length + (rootOff t + 1), t.kind⟩,
        s.ov (E0 ++ evs t) (dp + (toks t).length) 0 (sbOf t) lv pr) := by
  rw [expr.run_2, G.bind_apply,
    exprBp_ov t 1 _ s E0 dp st sb lv pr f hnp hst hpr htk hc (Nat.le_refl _) (by decide) hfol hf]
  rfl

/-- `expr_bp` with the marker handed in by `expr_stmt` is `expr_bp` without it, started before
that marker was pushed -/
theorem exprBp_some (f : Nat) (r : Restrictions) (bp : Nat) (s : P) (hnp : s.noProgressLimit = 0)
    (E0 : List Ev) (dp st sb lv : Nat) (pr : List Nat) :
    exprBp (f + 1) (some { pos := s.events.size + E0.length }) r bp
        (s.ov (E0 ++ [.start .TOMBSTONE none]) dp st (sb + 1) (lv + 1) pr) =
      exprBp (f + 1) none r bp (s.ov E0 dp st sb lv pr) := by
  conv => lhs; rw [exprBp.run_2, G.bind_apply]
  conv => rhs; rw [exprBp.run_3, G.bind_apply]
  simp only [G.pure_apply]
  rw [start_ov _ _ _ _ _ _ _ hnp]

/-! ### the pieces of statements -/

theorem ok_ov_congr {α} (a a' : α) (s : P) (E E' : List Ev) (n n' st sb lv : Nat) (pr : List Nat)
    (ha : a' = a) (hE : E' = E) (hn : n' = n) :
    (Except.ok (a', s.ov E' n' st sb lv pr) : Except Outcome (α × P)) = .ok (a, s.ov E n st sb lv pr) := by
  rw [ha, hE, hn]

/-- closes `ok (a, s.ov E' n' …) = ok (a, s.ov E n …)` -/
macro "close_ov" : tactic => `(tactic| (
  first
    | rfl
    | (refine ok_ov_congr _ _ _ _ _ _ _ _ _ _ _ ?_ ?_ ?_
       · first | rfl | omega | (simp only [List.length_cons, List.length_nil]; omega)
       · (try simp only [evsS, evsL, tyEvs, blockEvs, exprStmtTail, tombLink, Ty.kind, PTy.kind, qubitEvs, qubitToks, argEvs, argToks,
            paramEvs, typedEvs, retEvs, List.cons_append, List.nil_append, List.append_assoc]); (try rfl)
       · (try simp only [toksS, toksL, tyToks, qubitToks, argToks, typedToks, retToks, tk, List.length_cons, List.length_nil,
            List.length_append]); omega)))

set_option hygiene false in
/-- symbolic execution from the base state `s` (names `s`, `hr` of the enclosing lemma) -/
macro "run_base" "[" hs:Lean.Parser.Tactic.simpLemma,* "]" : tactic => `(tactic| (
  have hnp := hr.hook
  have hsteps := hr.steps
  have hst : s.steps ≤ s.stepLimit := by omega
  have hst1 : s.steps + 1 ≤ s.stepLimit := by omega
  have hpr := hr.prot
  refine ⟨?_, ?_, ?_, of_ov _ _ _ ?_⟩
  rotate_left 3
  · sym_eval [filter_base s hpr, contains_base s hpr, $hs,*]
    close_ov
  · first | exact Nat.zero_le _ | omega))

theorem operandFirst_ne_lit {k : SyntaxKind} (h : operandFirst k = true) :
    k ≠ .FLOAT_NUMBER ∧ k ≠ .BYTE ∧ k ≠ .CHAR ∧ k ≠ .STRING ∧ k ≠ .BIT_STRING := by
  simp only [operandFirst, Bool.or_eq_true, beq_iff_eq] at h
  rcases h with ((((h | h) | h) | h) | h) | h <;> subst h <;> decide

theorem varName_acc (s : P) (hr : Rdy 2 s) (h0 : s.kindAt (s.pos + 0) = .IDENT) :
    Acc varName s 1 [.start .NAME none, .token .IDENT 1, .finish] := by
  run_base [h0]

theorem typeSpec_plain (ty : Ty) (f : Nat) (s : P) (hr : Rdy 2 s) (h0 : s.kindAt (s.pos + 0) = ty.kind)
    (h1 : s.kindAt (s.pos + 1) ≠ .L_BRACK) :
    AccV (typeSpec (f + 3)) true s 1 (tyEvs ty none) := by
  cases ty <;> simp only [Ty.kind] at h0 <;> run_base [h0, h1]


theorem typeSpec_wide (ty : Ty) (w : E) (f : Nat) (s : P) (hr : Rdy 2 s) (hty : ty.wide = true)
    (htk : Toks s s.pos (tyToks ty (some w))) (hc : CanonE 1 w) (hf : 6 * size w ≤ f) :
    AccV (typeSpec (f + 4)) true s ((toks w).length + 3) (tyEvs ty (some w)) := by
  simp only [tyToks, Toks, Toks_append, tk, List.length_cons, List.length_nil] at htk
  obtain ⟨h0, -, h1, -, htw, hrb, -, -⟩ := htk
  have hpr' : ∀ n, ∀ p ∈ s.protectedPos, p < s.events.size + n := fun n p hp => Nat.lt_add_right n (hr.prot p hp)
  have hw := fun st sb lv E0 h1 => expr_ov w s E0 2 st sb lv s.protectedPos f hr.hook h1 (hpr' _)
    (by rw [Nat.add_assoc] at htw; exact htw) hc (by rw [show s.pos + 2 + (toks w).length = s.pos + 1 + 1 + (toks w).length by omega, hrb]; rfl) hf
  rw [show s.pos = s.pos + 0 from rfl] at h0
  rw [show s.pos + 1 + 1 + (toks w).length = s.pos + (2 + (toks w).length) by omega] at hrb
  obtain ⟨k1, j1, ts, hts, hk1⟩ := toks_first w
  rw [hts] at htw
  obtain ⟨h2, -, -⟩ := htw
  rw [show s.pos + 1 + 1 = s.pos + 2 from rfl] at h2
  rw [← h2] at hk1
  obtain ⟨e1, e2, e3, e4, e5⟩ := operandFirst_ne_lit hk1
  cases ty <;> simp only [Ty.kind] at h0 <;> first | (simp [Ty.wide] at hty; done) | skip
  all_goals run_base [h0, h1, e1, e2, e3, e4, e5, hrb, hw]

theorem qubitToks_length (n : Nat) : (qubitToks n).length = 2 * n + 1 := by
  induction n with
  | zero => rfl
  | succ n ih => simp only [qubitToks, List.length_cons, ih]; omega

theorem qubitEvs_length (n : Nat) : (qubitEvs n).length = 4 * n + 3 := by
  induction n with
  | zero => rfl
  | succ n ih => simp only [qubitEvs, List.length_cons, ih]; omega

/-- the item loop of `_param_list_openqasm` on the qubits of a gate call -/
theorem qubitLoop_acc (nq : Nat) : ∀ (g k : Nat) (s : P), Rdy 2 s → Toks s s.pos (qubitToks nq) →
    s.kindAt (s.pos + (qubitToks nq).length) = .SEMICOLON →
    AccV (paramListOpenqasmLoop (g + nq + 3) .gateCallQubits k) (k + nq + 1) s (qubitToks nq).length (qubitEvs nq) := by
  induction nq with
  | zero =>
    intro g k s hr htk hsemi
    simp only [qubitToks, Toks, tk, List.length_cons, List.length_nil] at htk hsemi
    obtain ⟨h0, -, -⟩ := htk
    rw [show s.pos = s.pos + 0 from rfl] at h0
    simp only [Nat.zero_add] at hsemi
    run_base [h0, hsemi]
  | succ n ih =>
    intro g k s hr htk hsemi
    simp only [qubitToks, Toks, tk, List.length_cons] at htk hsemi
    obtain ⟨h0, -, h1, -, htk⟩ := htk
    rw [show s.pos = s.pos + 0 from rfl] at h0
    have hpr' : ∀ n, ∀ p ∈ s.protectedPos, p < s.events.size + n := fun n p hp => Nat.lt_add_right n (hr.prot p hp)
    have hrec := fun E0 st sb (hst : st + 2 ≤ s.stepLimit) =>
      (ih g (k + 1) (s.ov E0 2 st sb s.live s.protectedPos)
        (Rdy_ov 2 s E0 2 st sb s.live s.protectedPos hr.hook hst (hpr' _))
        ((Toks_ov s E0 2 st sb s.live s.protectedPos _ _).2 (by rw [Nat.add_assoc] at htk; exact htk))
        (by rw [← hsemi]; show s.kindAt (s.pos + 2 + _) = _; congr 1; omega)).at_ov
    obtain ⟨st', sb', hle, hrec'⟩ := hrec [.start .IDENTIFIER none, .token .IDENT 1, .finish, .token .COMMA 1] 0 1
      (by have := hr.steps; omega)
    show AccV (paramListOpenqasmLoop ((g + n + 3) + 1) .gateCallQubits k) _ s _ _
    run_base [h0, h1, hrec']

/-- `arg_list_gate_call_qubits` on `q0, …, q_nq ;` -/
theorem qubitList_acc (nq g : Nat) (s : P) (hr : Rdy 2 s) (htk : Toks s s.pos (qubitToks nq))
    (hsemi : s.kindAt (s.pos + (qubitToks nq).length) = .SEMICOLON) :
    Acc (argListGateCallQubits (g + nq + 5)) s (qubitToks nq).length
      (.start .QUBIT_LIST none :: (qubitEvs nq ++ [.finish])) := by
  have hpr' : ∀ n, ∀ p ∈ s.protectedPos, p < s.events.size + n := fun n p hp => Nat.lt_add_right n (hr.prot p hp)
  obtain ⟨st', sb', hle, hloop⟩ :=
    (qubitLoop_acc nq g 0 (s.ov [.start .TOMBSTONE none] 0 s.steps (s.sinceBump + 1) (s.live + 1) s.protectedPos)
      (Rdy_ov 2 s _ 0 _ _ _ _ hr.hook hr.steps (hpr' _))
      ((Toks_ov s _ 0 _ _ _ _ _ _).2 htk) hsemi).at_ov
  show Acc (argListGateCallQubits ((g + nq + 3) + 1 + 1)) _ _ _
  run_base [hloop]

/-- fuel for the argument loop -/
def argsNeed : List E → Nat
  | [] => 0
  | a :: as => max (6 * size a + 3) (argsNeed as + 1)

theorem operandFirst_ne_close {k : SyntaxKind} (h : operandFirst k = true) :
    k ≠ .R_PAREN ∧ k ≠ .EOF ∧ k ≠ .R_CURLY ∧ k ≠ .COMMA ∧ k ≠ .SEMICOLON := by
  simp only [operandFirst, Bool.or_eq_true, beq_iff_eq] at h
  rcases h with ((((h | h) | h) | h) | h) | h <;> subst h <;> decide

theorem argLoop_acc (as : List E) : ∀ (a : E) (F : Nat) (s : P), argsNeed (a :: as) ≤ F → Rdy 2 s →
    Toks s s.pos (argToks (a :: as)) → s.kindAt (s.pos + (argToks (a :: as)).length) = .R_PAREN →
    (∀ x ∈ a :: as, CanonE 1 x) →
    Acc (delimitedLoop F .R_PAREN .COMMA TokenSets.EXPR_FIRST .exprIsSome) s (argToks (a :: as)).length
      (argEvs (a :: as)) := by
  induction as with
  | nil =>
    intro a F s hF hr htk hclose hc
    obtain ⟨g, rfl⟩ : ∃ g, F = g + 3 := ⟨F - 3, by simp only [argsNeed] at hF; omega⟩
    simp only [argToks] at htk hclose
    have hpr' : ∀ n, ∀ p ∈ s.protectedPos, p < s.events.size + n := fun n p hp => Nat.lt_add_right n (hr.prot p hp)
    have ha := fun st sb lv E0 h1 => expr_ov a s E0 0 st sb lv s.protectedPos g hr.hook h1 (hpr' _)
      htk (hc a (by simp)) (by rw [Nat.add_zero, hclose]; rfl) (by simp only [argsNeed] at hF; omega)
    obtain ⟨k1, j1, ts, hts, hk1⟩ := toks_first a
    rw [hts] at htk
    obtain ⟨h0, -, -⟩ := htk
    rw [show s.pos = s.pos + 0 from rfl] at h0
    rw [← h0] at hk1
    obtain ⟨e1, e2, -, -, -⟩ := operandFirst_ne_close hk1
    have hclose' : s.kindAt (s.pos + (0 + (toks a).length)) = .R_PAREN := by rw [Nat.zero_add]; exact hclose
    have b1 := beq_false_of_ne e1
    have b2 := beq_false_of_ne e2
    run_base [b1, b2, ha, hclose']
  | cons b bs ih =>
    intro a F s hF hr htk hclose hc
    obtain ⟨g, rfl⟩ : ∃ g, F = g + 3 := ⟨F - 3, by simp only [argsNeed] at hF; omega⟩
    have hF' : 6 * size a ≤ g ∧ argsNeed (b :: bs) ≤ g + 2 := by
      simp only [argsNeed] at hF ⊢; omega
    rw [show argToks (a :: b :: bs) = toks a ++ (tk .COMMA :: argToks (b :: bs)) from rfl] at htk hclose
    simp only [Toks_append, Toks, tk, List.length_append, List.length_cons] at htk hclose
    obtain ⟨hta, hcomma, -, htrest⟩ := htk
    have hpr' : ∀ n, ∀ p ∈ s.protectedPos, p < s.events.size + n := fun n p hp => Nat.lt_add_right n (hr.prot p hp)
    have ha := fun st sb lv E0 h1 => expr_ov a s E0 0 st sb lv s.protectedPos g hr.hook h1 (hpr' _)
      hta (hc a (by simp)) (by rw [Nat.add_zero, hcomma]; rfl) hF'.1
    obtain ⟨st', sb', hle, hrec⟩ :=
      (ih b (g + 2) (s.ov (evs a ++ [Ev.token .COMMA 1]) (0 + (toks a).length + 1) 0 1 s.live s.protectedPos)
        hF'.2 (Rdy_ov 2 s _ _ _ _ _ _ hr.hook (by have := hr.steps; omega) (hpr' _))
        ((Toks_ov s _ _ _ _ _ _ _ _).2 (by
          show Toks s (s.pos + (0 + (toks a).length + 1)) _
          rw [Nat.zero_add, ← Nat.add_assoc]; exact htrest))
        (by
          show s.kindAt (s.pos + (0 + (toks a).length + 1) + _) = _
          rw [← hclose]; congr 1; omega)
        (fun x hx => hc x (List.mem_cons_of_mem _ hx))).at_ov
    obtain ⟨k1, j1, ts, hts, hk1⟩ := toks_first a
    rw [hts] at hta
    obtain ⟨h0, -, -⟩ := hta
    rw [show s.pos = s.pos + 0 from rfl] at h0
    rw [← h0] at hk1
    obtain ⟨e1, e2, -, -, -⟩ := operandFirst_ne_close hk1
    have b1 := beq_false_of_ne e1
    have b2 := beq_false_of_ne e2
    have hcomma' : s.kindAt (s.pos + (0 + (toks a).length)) = .COMMA := by rw [Nat.zero_add]; exact hcomma
    run_base [b1, b2, ha, hcomma', hrec]

/-- `call_arg_list` on `( a0, …, an )` -/
theorem callArgs_acc (a : E) (as : List E) (F : Nat) (s : P) (hF : argsNeed (a :: as) + 2 ≤ F) (hr : Rdy 2 s)
    (h0 : s.kindAt (s.pos + 0) = .L_PAREN)
    (htk : Toks s (s.pos + 1) (argToks (a :: as)))
    (hclose : s.kindAt (s.pos + (1 + (argToks (a :: as)).length)) = .R_PAREN)
    (hc : ∀ x ∈ a :: as, CanonE 1 x) :
    Acc (callArgList F) s ((argToks (a :: as)).length + 2)
      (.start .ARG_LIST none :: .start .EXPRESSION_LIST none :: .token .L_PAREN 1 ::
        (argEvs (a :: as) ++ [.token .R_PAREN 1, .finish, .finish])) := by
  obtain ⟨g, rfl⟩ : ∃ g, F = g + 2 := ⟨F - 2, by omega⟩
  have hpr' : ∀ n, ∀ p ∈ s.protectedPos, p < s.events.size + n := fun n p hp => Nat.lt_add_right n (hr.prot p hp)
  obtain ⟨st', sb', hle, hloop⟩ :=
    (argLoop_acc as a g
      (s.ov [.start .TOMBSTONE none, .start .TOMBSTONE none, .token .L_PAREN 1] 1 0 1 (s.live + 1 + 1) s.protectedPos)
      (by omega) (Rdy_ov 2 s _ _ _ _ _ _ hr.hook (by have := hr.steps; omega) (hpr' _))
      ((Toks_ov s _ _ _ _ _ _ _ _).2 htk)
      (by show s.kindAt (s.pos + 1 + _) = _; rw [Nat.add_assoc]; exact hclose) hc).at_ov
  run_base [h0, hloop, hclose]

end Oq3.LangEv
