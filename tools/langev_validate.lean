/-
Validation of the event encoding of Oq3/Lemmas/LangEv.lean against the grammar model, by
evaluation: programs built from a pool of statements (nested to depth 2) are printed, parsed with
`parseSourceFile`, and the events / final position are compared with `evsP` / the token count;
`process` of the events is compared with `nodesP`.  Prints (#programs, #failures).

  cd /verif/lean && lake env lean ../tools/langev_validate.lean
-/
import Oq3.Lemmas.LangEv
open Oq3.Gen Oq3.Parser Oq3.Grammar Oq3.PrattEv Oq3.LangEv

def exprs : List E :=
  [.id, .int, .bin .plus .id (.bin .star .int .id), .pre .minus .id, .paren (.bin .shl .id .int),
   .bin .lteq (.pre .bang .id) .int, .pre .tilde (.paren .int)]

def rhsPool : List E := [.id, .int, .pre .minus .id, .paren (.bin .plus .id .int)]

def flat : List Stmt :=
  [.decl .int none none, .decl .uint (some .int) (some (.bin .plus .id .int)), .decl .bool none (some .id),
   .decl .float (some (.bin .star .int .int)) none,
   .brk, .cont, .endS, .measure, .assignMeasure, .reset, .barrier 0, .barrier 2, .ret none, .ret (some (.bin .plus .id .int)),
   .gateDef none 0 .nil, .gateDef (some 1) 1 (.cons (.gate [] 0) .nil), .defS [] none .nil,
   .defS [.cls .int, .qubit] (some .float) (.cons (.ret (some .id)) .nil), .defS [.qubit] (some .bit) (.cons .measure .nil),
   .gate [] 0, .gate [] 2, .gate [.id] 0, .gate [.bin .slash .id .int, .pre .minus .int] 1] ++
  exprs.map .exprS ++ rhsPool.map .assign

def ofList : List Stmt → Stmts
  | [] => .nil
  | s :: ss => .cons s (ofList ss)

/-- the F09e restriction: an assignment is not followed by a statement starting with `-` -/
def startsMinus : Stmt → Bool
  | .exprS e => (toks e).head? == some (SyntaxKind.MINUS, false)
  | _ => false
def isAssign : Stmt → Bool
  | .assign _ | .assignMeasure => true
  | _ => false
def okSeq : List Stmt → Bool
  | a :: b :: rest => !(isAssign a && startsMinus b) && okSeq (b :: rest)
  | _ => true

def check (p : Stmts) : Bool :=
  let tk := toksL p
  match parseSourceFile (10 * tk.length + 50) (tk.map (·.1)).toArray (tk.map (·.2)).toArray with
  | .ok (ev, pos) =>
    ev.toList == evsP p && pos == tk.length && process (evsP p) == some (nodesP p)
  | .error _ => false

def count (ps : List Stmts) : Nat × Nat := (ps.length, (ps.filter fun p => !check p).length)

def pairs : List (List Stmt) := (flat.flatMap fun a => flat.map fun b => [a, b]).filter okSeq
def nested1 : List Stmt :=
  (exprs.take 3).flatMap fun c => ([[], [Stmt.brk], [.exprS .id, .assign .int], [.gate [] 1, .decl .int none (some .id)]].map ofList).flatMap fun b =>
    [Stmt.ifS c b, .ifElse c b (ofList [.cont]), .ifElse c (ofList [.reset]) b, .whileS c b, .forS .int c .int b, .forS .uint .id c b]
def nested2 : List Stmt :=
  (nested1.take 40).flatMap fun n => [Stmt.ifS .id (ofList [n, .brk]), .whileS .int (ofList [.exprS .id, n]), .ifElse .id (ofList [n]) (ofList [n, n])]

#eval count ([Stmts.nil] ++ flat.map fun s => ofList [s])
#eval count (pairs.map ofList)
#eval count (nested1.map fun s => ofList [s])
#eval count (nested1.map fun s => ofList [.decl .int none none, s, .exprS (.pre .minus .id)])
#eval count (nested2.map fun s => ofList [s, .assign .id])
#eval count (nested2.map fun s => ofList [.exprS .id, s])   -- the first statement is not item-first

