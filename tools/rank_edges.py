# calls that a function may make BEFORE it has consumed a token (over-approximation), mutual block only
N = {
 "optReturnSignature": [], "delimited": ["delimitedLoop"], "delimitedLoop": ["delimitedParser"],
 "delimitedParser": ["expr"], "sourceFileContents": ["item"], "item": ["optItem", "exprBlockStatements"],
 "optItem": ["classicalDeclarationStmt","qubitDeclarationStmt","gateDefinition","ifStmt","whileStmt","forStmt",
   "defStmt","defcal_","cal_","externStmt","resetStmt","barrier_","switchCaseStmt","aliasStmt","delayStmt","ioDeclarationStmt"],
 "switchCaseStmt": [], "switchCaseLoop": [], "blockOrStatement": ["blockExpr","stmt"],
 "ifStmt": [], "whileStmt": [], "forStmt": [], "qubitDeclarationStmt": ["qubitTypeSpec"],
 "resetStmt": [], "gateDefinition": [], "defcal_": [],
 "returnsBoolClassicalDeclarationStmt": ["typeSpec","expr","arrayLiteral"],
 "classicalDeclarationStmt": ["returnsBoolClassicalDeclarationStmt"],
 "ioDeclarationStmt": ["typeSpec"], "defStmt": ["paramListDefParams","optReturnSignature","tryBlockExpr"],
 "externStmt": ["scalarTypeList","optReturnSignature"], "cal_": [], "barrier_": [], "delayStmt": [],
 "aliasStmt": ["expr"], "expr": ["exprBp"], "rangeExpr": [], "exprOrRangeExpr": ["exprBp"],
 "exprStmt": ["exprBp"], "stmt": ["letStmt","optItem","qOrCRegDeclaration","exprStmt"], "letStmt": [],
 "qOrCRegParam": ["indexOperator"], "qOrCRegDeclaration": ["qOrCRegParam"],
 "exprBlockStatements": ["stmt"], "exprBp": ["lhs","exprBpLoop"], "exprBpLoop": [],
 "lhs": ["atomExpr","postfixExpr"], "postfixExpr": ["callExpr","indexExpr","indexedIdentifier"],
 "callExpr": ["callArgList"], "paramTypeSpec": ["arrayTypeSpec","nonArrayTypeSpec"],
 "typeSpec": ["arrayTypeSpec","nonArrayTypeSpec"], "arrayTypeSpec": [], "arrayTypeDimsLoop": ["expr"],
 "nonArrayTypeSpec": ["complexTypeSpec","designator"], "complexTypeSpec": [], "qubitTypeSpec": ["designator"],
 "designator": [], "indexExpr": ["indexOperator"], "indexedIdentifier": ["indexedIdentifierLoop"],
 "indexedIdentifierLoop": ["indexOperator"], "setExpression": [], "indexOperator": [], "callArgList": [],
 "atomExpr": ["castExpr","tupleExpr","arrayExpr","boxExpr","measureExpression","returnExpr","blockExpr",
   "modifiedGateCallExpr","gphaseCallExpr","gateCallExpr"],
 "castExpr": ["typeSpec"], "gphaseCallExpr": [],
 "modifiedGateCallExpr": ["modifiedGateCallExprLoop","gphaseCallExpr","gateCallExpr"],
 "modifiedGateCallExprLoop": [], "gateCallExpr": ["callArgList","argListGateCallQubits"],
 "measureExpression": [], "tupleExpr": [], "tupleExprLoop": ["expr"], "arrayExpr": [], "arrayExprLoop": ["expr"],
 "tryBlockExpr": ["blockExpr"], "blockExpr": [], "returnExpr": [], "boxExpr": [],
 "paramTyped": ["qOrCRegParam","paramTypeSpec"], "scalarType": ["typeSpec"], "argGateCallQubit": [],
}
FLAVORS = ['gateParams', 'gateQubits', 'gateCallQubits', 'defParams', 'defCalParams', 'defCalQubits', 'expressionList', 'arrayLiteral', 'caseValues', 'typeListFlavor']
WRAP = {"paramListGateParams":"gateParams","paramListGateQubits":"gateQubits","argListGateCallQubits":"gateCallQubits",
  "paramListDefParams":"defParams","scalarTypeList":"typeListFlavor","paramListDefcalParams":"defCalParams",
  "paramListDefcalQubits":"defCalQubits","expressionList":"expressionList","caseValueList":"caseValues","arrayLiteral":"arrayLiteral"}
ITEM = {"expressionList":["exprOrRangeExpr"],"caseValues":["exprOrRangeExpr"],"gateCallQubits":["argGateCallQubit"],
  "typeListFlavor":["scalarType"],"defCalParams":["paramTyped"],"defParams":["paramTyped"],"gateParams":[],"gateQubits":[],
  "defCalQubits":[],"arrayLiteral":["arrayLiteral","expr"]}
for w,f in WRAP.items():
    N[w] = ["paramListOpenqasm@"+f]
for f in FLAVORS:
    N["paramListOpenqasm@"+f] = [] if f == "arrayLiteral" else ["paramListOpenqasmLoop@"+f]
    N["paramListOpenqasmLoop@"+f] = ["paramListItem@"+f]
    N["paramListItem@"+f] = ITEM[f]
def ranks():
    R = {}
    def go(f, stack=()):
        if f in R: return R[f]
        assert f not in stack, ("cycle", stack + (f,))
        R[f] = 1 + max([go(g, stack + (f,)) for g in N[f]], default=0)
        return R[f]
    for f in N: go(f)
    return R
if __name__ == "__main__":
    try:
        R = ranks()
        print(max(R.values()), sorted(R.items(), key=lambda x: -x[1])[:14])
    except AssertionError as e:
        print(e)
