#!/usr/bin/env python3
"""Generates Oq3/Lemmas/GrammarProg*.lean: for every function of Oq3/Model/Grammar.lean the
statement and the proof script of

  * monotonicity: the position never moves backwards, the input is not changed,
  * progress: the function consumes at least one token under the stated condition (this is what
    makes every loop iteration consume a token or exit), and
  * fuel: `rank f + K * (tokens left)` units of fuel are enough, i.e. the model never fails with
    `Outcome.fuel`.

`rank` is the height of the function in the graph "calls before having consumed a token"
(tools/rank_edges.py; the graph is acyclic — that is the termination argument), `K` exceeds every
rank.  The proofs are checked by Lean; this script only enumerates the functions and attaches the
tables below.  Same scheme as gen_grammar_safe.py."""
import re, os, sys
sys.path.insert(0, os.path.dirname(os.path.abspath(__file__)))
import rank_edges
root = os.environ.get("VERIF_ROOT") or os.path.dirname(os.path.dirname(os.path.abspath(__file__)))
src = open(os.path.join(root, "lean/Oq3/Model/Grammar.lean"), encoding="utf-8").read()

def defs(text):
    out = []
    for m in re.finditer(r"^def\s+([A-Za-z_][A-Za-z0-9_'.]*)\s*((?:.|\n)*?):=", text, flags=re.M):
        name, sig = m.group(1), " ".join(m.group(2).split())
        depth, idx = 0, None
        for i, ch in enumerate(sig):
            if ch in "([{": depth += 1
            elif ch in ")]}": depth -= 1
            elif ch == ":" and depth == 0: idx = i
        if idx is None:
            continue
        out.append((name, sig[:idx].strip(), sig[idx + 1:].strip()))
    return out

i_mut = src.index("\nmutual\n")
i_end = src.index("\nend\n", i_mut)
leaf = [d for d in defs(src[:i_mut]) if d[2].startswith("G ")]
mut = [d for d in defs(src[i_mut:i_end]) if d[2].startswith("G ")]

def binder_names(b):
    names = []
    for m in re.finditer(r"\(([^:()]+):", b):
        names += m.group(1).split()
    return names

def write(name, text):
    open(os.path.join(root, "lean/Oq3/Lemmas", name), "w", encoding="utf-8").write(text)

K = 20
R = rank_edges.ranks()
assert max(R.values()) < K - 1
FLAVORS = rank_edges.FLAVORS

CUR = "s.kindAt s.pos"
def at(k): return f"atF .{k} s.kinds s.joint s.pos = true"
def atb(k): return f"atF .{k} s.kinds s.joint s.pos"
PG = "s.pos < s'.pos"
SAME = "s'.tv = s.tv"
TS_NA = f"(isType ({CUR}) || {atb('L_BRACK')})"
TS_P = f"(isType ({CUR}) || {atb('L_BRACK')} || {atb('ARRAY_KW')} || {atb('MUTABLE_KW')} || {atb('READONLY_KW')})"
C4 = f"modHead ({CUR}) = true"
EH = f"exprHalt ({CUR}) = false"
AH = f"atomHalt ({CUR}) = false"
SOME = "r.isSome = true"

# name -> (token precondition or None, [postcondition clauses besides `Adv s s'`])
SPEC = {
  # leaf functions
  "nameR": (None, []), "name": (None, []), "filepathR": (None, []), "version_": (None, []),
  "break_": (None, [PG]), "continue_": (None, [PG]), "end_": (None, [PG]), "defcalgrammar_": (None, [PG]),
  "include'": (None, [PG]), "versionString": (None, [PG]), "hardwareQubit": (None, [PG]),
  "varName": (None, [f"{at('IDENT')} → {PG}"]), "identifier": (None, [f"{at('IDENT')} → {PG}"]),
  "literal": (None, [f"{SOME} → {PG}", f"r = none → {SAME}"]),
  "atListEndToken": (None, [SAME]),
  "paramUntyped": (None, [f"r = true → {PG}"]), "paramUntypedOrHardwareQubit": (None, [f"r = true → {PG}"]),
  # mutual block
  "optReturnSignature": (None, []), "delimited": (None, [f"consumeBraket = true → {PG}"]),
  "delimitedLoop": (None, []), "delimitedParser": (None, [f"r = true → {PG}"]),
  "sourceFileContents": (None, []),
  "item": (None, [f"({atb('EOF')} || ({atb('R_CURLY')} && stopOnRCurly)) = false → {PG}"]),
  "optItem": (None, [f"r.isOk = true → {PG}", f"r.isOk = false → {SAME}"]),
  "switchCaseStmt": (None, [PG]), "switchCaseLoop": (None, []), "blockOrStatement": (None, []),
  "ifStmt": (None, [PG]), "whileStmt": (None, [PG]), "forStmt": (None, [PG]),
  "qubitDeclarationStmt": (None, [PG]), "resetStmt": (None, [PG]), "gateDefinition": (None, [PG]),
  "defcal_": (None, [PG]),
  "returnsBoolClassicalDeclarationStmt": (None, [f"(isClassicalType ({CUR}) = true ∨ {at('CONST_KW')}) → {PG}"]),
  "classicalDeclarationStmt": (None, [f"(isClassicalType ({CUR}) = true ∨ {at('CONST_KW')}) → {PG}"]),
  "ioDeclarationStmt": (None, [f"{CUR} ≠ .EOF → {PG}"]),
  "defStmt": (None, [PG]), "externStmt": (None, [PG]), "cal_": (None, [PG]), "barrier_": (None, [PG]),
  "delayStmt": (None, [PG]), "aliasStmt": (None, [PG]),
  "expr": (None, [f"{SOME} → {PG}", f"{EH} → {PG}"]), "rangeExpr": (None, [PG]),
  "exprOrRangeExpr": (None, [f"{EH} → {PG}"]),
  "exprStmt": (None, [f"{SOME} → {PG}", f"{EH} → {PG}"]),
  "stmt": (None, [f"{AH} → {PG}"]), "letStmt": (None, [PG]),
  "qOrCRegParam": (None, [f"{CUR} ≠ .EOF → {PG}"]), "qOrCRegDeclaration": (None, [f"{CUR} ≠ .EOF → {PG}"]),
  "exprBlockStatements": (None, [f"{AH} → {PG}"]),
  "exprBp": (None, [f"{SOME} → {PG}", f"{EH} → {PG}"]), "exprBpLoop": (None, []),
  "lhs": (None, [f"{SOME} → {PG}", f"{AH} → {PG}"]), "postfixExpr": (None, []), "callExpr": (None, [PG]),
  "paramTypeSpec": (None, [f"{TS_P} = true → {PG}", f"{TS_P} = false → {SAME}"]),
  "typeSpec": (None, [f"{TS_NA} = true → {PG}"]),
  "arrayTypeSpec": (f"(wantArrayRefType = true → ({at('ARRAY_KW')} ∨ {at('MUTABLE_KW')} ∨ {at('READONLY_KW')}))", [PG]),
  "arrayTypeDimsLoop": (None, []),
  "nonArrayTypeSpec": (None, [f"{TS_NA} = true → {PG}", f"{TS_NA} = false → {SAME}"]),
  "complexTypeSpec": (None, [PG]), "qubitTypeSpec": (None, [PG]), "designator": (None, [PG]),
  "indexExpr": (None, [PG]), "indexedIdentifier": (None, [PG]),
  "indexedIdentifierLoop": (None, [f"{at('L_BRACK')} → {PG}"]),
  "setExpression": (None, [PG]), "indexOperator": (None, [PG]), "callArgList": (None, [PG]),
  "atomExpr": (None, [f"{SOME} → {PG}", f"{AH} → {PG}"]),
  "castExpr": (f"isClassicalType ({CUR}) = true", [PG]), "gphaseCallExpr": (None, [PG]),
  "modifiedGateCallExpr": (None, [f"{C4} → {PG}"]), "modifiedGateCallExprLoop": (None, [f"{C4} → {PG}"]),
  "gateCallExpr": (None, [f"{at('IDENT')} → {PG}"]), "measureExpression": (None, [PG]),
  "tupleExpr": (None, [PG]), "tupleExprLoop": (None, []), "arrayExpr": (None, [PG]),
  "arrayExprLoop": (None, []), "tryBlockExpr": (None, []), "blockExpr": (None, [PG]),
  "returnExpr": (None, [PG]), "boxExpr": (None, [PG]),
  "paramListGateParams": (None, []), "paramListGateQubits": (None, []), "argListGateCallQubits": (None, []),
  "paramListDefParams": (None, []), "scalarTypeList": (None, []), "paramListDefcalParams": (None, []),
  "paramListDefcalQubits": (None, []), "expressionList": (None, []), "caseValueList": (None, []),
  "arrayLiteral": (at("L_CURLY"), [PG]),
  "paramListOpenqasm": (f"(flavor = .arrayLiteral → {at('L_CURLY')})", [f"flavor = .arrayLiteral → {PG}"]),
  "paramListOpenqasmLoop": (None, []),
  "paramListItem": (f"({CUR} ≠ .EOF ∧ (innerArrayLiteral = true → {at('L_CURLY')}) ∧ (itemGuard ({CUR}) innerArrayLiteral = true ∨ "
                    f"(flavor = .defParams ∧ ({at('MUTABLE_KW')} ∨ {at('READONLY_KW')}))))", [f"r = true → {PG}"]),
  "paramTyped": (None, [f"r = true → {PG}"]), "scalarType": (None, [f"r = true → {PG}"]),
  "argGateCallQubit": (None, [f"r = true → {PG}"]),
}
MANUAL = {"currentOpScan", "currentOp", "typeName", "bumpUntilEof"}
TRIO = {"paramListOpenqasm": "rkList", "paramListOpenqasmLoop": "rkLoop", "paramListItem": "rkItem"}

def rank(name):
    return f"{TRIO[name]} flavor" if name in TRIO else str(R[name])

def post(name):
    return " ∧ ".join(["Adv s s'"] + [f"({c})" for c in SPEC[name][1]])

def pre(name, fuel):
    """`rank + K * (tokens left) ≤ fuel`, stated without subtraction (the position is inside the input)"""
    tp = SPEC[name][0]
    a = f"{rank(name)} + {K} * s.kinds.size ≤ {fuel} + {K} * s.pos ∧ s.pos ≤ s.kinds.size"
    return a if tp is None else f"{a} ∧ {tp}"

HDR = "/- GENERATED by /verif/tools/gen_grammar_progress.py from Oq3/Model/Grammar.lean — the proofs are checked by Lean. -/\n"
NS = "namespace Oq3.Grammar\nopen Oq3.Gen Oq3.Parser\nopen Oq3.Gen.Ops (Assoc)\nopen Oq3.Gen.TokenSets\n"
OPTS = "set_option linter.unusedVariables false\nset_option linter.unusedSimpArgs false\n"

def gen():
    o = [HDR + "import Oq3.Lemmas.Progress\n" + OPTS + "\n" + NS]
    for tbl, node in (("rkList", "paramListOpenqasm"), ("rkLoop", "paramListOpenqasmLoop"), ("rkItem", "paramListItem")):
        o.append(f"/-- rank of `{node}` by flavor -/\ndef {tbl} : DefFlavor → Nat")
        for f in FLAVORS:
            o.append(f"  | .{f} => {R[node + '@' + f]}")
        o.append("")
    o.append("macro_rules | `(tactic| pg_norm) => `(tactic| try simp only [rkList, rkLoop, rkItem])\n")
    ops = open(os.path.join(root, "lean/Oq3/Gen/Ops.lean"), encoding="utf-8").read()
    composite = set(re.findall(r"^  \(\.([A-Z_0-9]+), \[", ops, flags=re.M))
    kinds = sorted((set(re.findall(r"(?:at'|eat|expect|bump) \.([A-Z_0-9]+)", src)) | {"EOF"}) - composite)
    for k in kinds:
        o.append(f"theorem atF_{k} (K J p) : atF .{k} K J p = (K.getD p .EOF == .{k}) := atF_simple (by decide) K J p")
    o.append("")
    inst = ", ".join(f"atF_{k}" for k in kinds)
    o.append("/-- `at K` for the simple kinds `K` of the grammar is a test of the current token -/")
    o.append("macro_rules\n  | `(tactic| pg_nf $[$loc]?) => `(tactic|\n    simp +decide [*, P.tv, P.kindAt, Prod.mk.injEq, Adv_iff, isOk_ok, isOk_error, isSome_of_isNone, inSet_nil, opt_none, opt_none',\n      hf_ctype, hf_type', hf_lit', hf_first, hf_classical, hf_atom, hf_classical_atom, hf_first_atom, hf_guardF, atomHalt_of_ne, exprHalt_of_ne, modHead_of_ne,\n      recStop_expr, recStop_atom, recStop_atom', rkList, rkLoop, rkItem,\n      " + inst + "] $[$loc]?)\n")
    o.append("macro_rules | `(tactic| pg_simp) => `(tactic|\n  simp_all +decide [P.tv, P.kindAt, OpGood, Except.isOk, Except.toBool, recStop_eq, exprHalt, atomHalt, itemGuard, modHead,\n    inSet_nil, opt_none, opt_none', isSome_of_isNone, hf_ctype, hf_type, hf_lit, Adv_iff, " + inst + "])\n")
    o.append("macro_rules | `(tactic| pg_sets) => `(tactic|\n  simp_all +decide [P.tv, P.kindAt, OpGood, Except.isOk, Except.toBool, inSet_nil, opt_none, opt_none', isSome_of_isNone, hf_ctype, hf_type, hf_lit,\n    hf_exprRec, hf_atomRec, hf_first, hf_classical, hf_atom, hf_guardF, Adv_iff, " + inst + "])\n")
    for name, b, ty in leaf:
        if name in MANUAL:
            continue
        ns = binder_names(b)
        tp = "s.pos ≤ s.kinds.size" + (f" ∧ {SPEC[name][0]}" if SPEC[name][0] else "")
        o.append(f"theorem {name}_prog {b} (s : P) (hpre : {tp}) :")
        o.append(f"    wp A3 ({name} {' '.join(ns)}) (fun r s' => {post(name)}) s := by\n  unfold {name}; pg\n")
    o.append("/-- all functions of the mutual block at one fuel level -/")
    o.append("structure AllProg (fuel : Nat) : Prop where")
    for name, b, ty in mut:
        bs = re.sub(r"^\(fuel : Nat\)\s*", "", b)
        ns = binder_names(bs)
        o.append(f"  {name} : ∀ {bs} (s : P), {pre(name, 'fuel')} →\n    wp A3 (Oq3.Grammar.{name} fuel {' '.join(ns)}) (fun r s' => {post(name)}) s")
    o.append("")
    part0 = "\n".join(o) + "\nend Oq3.Grammar\n"
    write("GrammarProg0.lean", part0)
    steps = []
    combine = []  # the per-flavor lemmas of the parameter-list trio are put together in GrammarProg.lean
    names = []
    for name, b, ty in mut:
        bs = re.sub(r"^\(fuel : Nat\)\s*", "", b)
        ns = binder_names(bs)
        if name in TRIO:
            bs1 = re.sub(r"^\(flavor : DefFlavor\)\s*", "", bs)
            ns1 = [n for n in ns if n != "flavor"]
            for f in FLAVORS:
                sub = lambda x: re.sub(r"\bflavor\b", f"DefFlavor.{f}", x)
                t = "set_option maxHeartbeats 3200000 in\n"
                t += f"theorem {name}_progstep_{f} (fuel : Nat) (ih : AllProg fuel) {bs1} (s : P) (hpre : {sub(pre(name, 'fuel + 1'))}) :\n"
                t += f"    wp A3 (Oq3.Grammar.{name} (fuel + 1) .{f} {' '.join(ns1)}) (fun r s' => {sub(post(name))}) s := by\n"
                if name == "paramListItem":
                    t += f"  unfold Oq3.Grammar.{name}; cases innerArrayLiteral <;> pg\n\n"
                else:
                    t += f"  unfold Oq3.Grammar.{name}; pg\n\n"
                steps.append(t); names.append(name)
            under = " ".join("_" for _ in ns1)
            t = f"theorem {name}_progstep (fuel : Nat) (ih : AllProg fuel) {bs} (s : P) (hpre : {pre(name, 'fuel + 1')}) :\n"
            t += f"    wp A3 (Oq3.Grammar.{name} (fuel + 1) {' '.join(ns)}) (fun r s' => {post(name)}) s := by\n"
            t += "  cases flavor\n"
            for f in FLAVORS:
                t += f"  · exact {name}_progstep_{f} fuel ih {under} s hpre\n".replace("  s hpre", " s hpre")
            combine.append(t)
            continue
        t = "set_option maxHeartbeats 3200000 in\n"
        t += f"theorem {name}_progstep (fuel : Nat) (ih : AllProg fuel) {bs} (s : P) (hpre : {pre(name, 'fuel + 1')}) :\n"
        t += f"    wp A3 (Oq3.Grammar.{name} (fuel + 1) {' '.join(ns)}) (fun r s' => {post(name)}) s := by\n"
        t += f"  unfold Oq3.Grammar.{name}; pg\n\n"
        steps.append(t); names.append(name)
    only = os.environ.get("ONLY")
    if only:
        keep = set(only.split(","))
        steps = [t for t, n in zip(steps, names) if n in keep]
    NCH = int(os.environ.get("NCH", "12"))
    for c in range(NCH):
        write(f"GrammarProg{c + 1}.lean", HDR + "import Oq3.Lemmas.GrammarProg0\n" + OPTS + "\n" + NS + "\n" + "".join(steps[c::NCH]) + "end Oq3.Grammar\n")
    o = [HDR.rstrip()]
    for c in range(NCH):
        o.append(f"import Oq3.Lemmas.GrammarProg{c + 1}")
    o.append(OPTS + "\n" + NS)
    o.append("\n".join(combine))
    o.append("theorem allProg (fuel : Nat) : AllProg fuel := by")
    o.append("  induction fuel with")
    o.append("  | zero =>")
    o.append("    constructor")
    for name, b, ty in mut:
        if name in TRIO:
            o.append("    · intro flavor; cases flavor <;> (intros; exfalso; simp only [rkList, rkLoop, rkItem] at *; omega)")
        else:
            o.append("    · intros; exfalso; omega")
    o.append("  | succ fuel ih =>")
    o.append("    constructor")
    for name, b, ty in mut:
        bs = re.sub(r"^\(fuel : Nat\)\s*", "", b)
        under = " ".join("_" for _ in binder_names(bs))
        o.append(f"    · intros; exact {name}_progstep fuel ih {under} _ ‹_›".replace("  _", " _"))
    o.append("\nend Oq3.Grammar")
    write("GrammarProg.lean", "\n".join(o) + "\n")
    print("prog:", len(leaf), "leaf,", len(mut), "mutual; K =", K, "max rank", max(R.values()))

if __name__ == "__main__":
    gen()
