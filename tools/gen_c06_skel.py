#!/usr/bin/env python3
"""Generator of the skeleton-preservation SCRIPT section of lean/Oq3/Props/C06.lean
(`structure AllSk`, the `post_ih` / `post_clear` macro_rules, the 25 `<fn>_sk_step` theorems and
`theorem allSk`); the proofs are checked by Lean.

Hand-written and NOT generated (keep them in C06.lean): `Post` and its combinators, `post_step` /
`post_close` macros, the leaf posts (`literal_post`, `binaryOp_post`, `bindParameterList_post`, ...),
and the final theorems `skeleton_preserved*`.  Paste the output between `notImpl_post`'s
macro_rules and `/-! ### skeleton preservation -/`.

`POSTS` = the post-condition of every function (AST-side skeleton = ASG-side skeleton of the
result); `CUSTOM` = the functions whose step needs a case split on the argument before unfolding.
The function list comes from gen_c06_frame.MUT.

    python3 tools/gen_c06_skel.py > /tmp/skel_section.lean
"""
import os, sys
sys.path.insert(0, os.path.dirname(os.path.abspath(__file__)))
from gen_c06_frame import MUT, names
POSTS = {
 "stmtToAsgStmt": "fun r => expectedW NM s = r.map Asg.stmt",
 "caseExprsLoop": "fun r => cases NM cs = Asg.cases r",
 "exprStmtToAsgStmt": "fun r => some (Ast.exprStmt NM e) = r.map Asg.stmt",
 "modifiersLoop": "fun r => Ast.modifiers NM ms = Asg.modifiers r",
 "parenExprToAsgTexpr": "fun r => Ast.paren NM p = r.map Asg.texpr",
 "exprToAsgTexpr": "fun r => Ast.optExpr NM e = r.map Asg.texpr",
 "setExpressionToAsgType": "fun r => Ast.setExpr NM s = Asg.texprs r",
 "rangeExpressionToAsgType": "fun x => Ast.range NM r = [Asg.texpr x.1, Asg.optTexpr x.2.1, Asg.texpr x.2.2]",
 "gateCallExprToAsgStmt": "fun r => some (Ast.gateCall NM g (Asg.modifiers ms)) = r.map Asg.stmt",
 "callExprToAsgTexpr": "fun r => Skel.node \"Call\" [Ast.optArgList NM al] = Asg.texpr r",
 "gateOperandToAsgTexpr": "fun r => Skel.node \"GateOperand\" [Ast.gateOperand NM g] = Asg.texpr r",
 "indexOperatorToAsgType": "fun r => Ast.indexOp NM i = Asg.indexOp r",
 "expressionListToAsgType": "fun r => Ast.exprList NM el = Asg.texprs r",
 "qubitListToAsgTexpr": "fun r => Ast.optQubitList NM ql = Asg.texprs r",
 "gateOperandsLoop": "fun r => Ast.gateOperands NM gs = Asg.texprs r",
 "expressionListToAsgTexpr": "fun r => Ast.exprList NM el = Asg.texprs r",
 "exprsLoop": "fun r => Ast.exprs NM es = Asg.texprs r",
 "blockExprToAsgStmtList": "fun r => block NM b = Asg.stmts r",
 "stmtsLoop": "fun r => stmts NM ss = Asg.stmts r",
 "blockExprToAsgType": "fun r => block NM b = Asg.block r",
 "blockOrStmtToAsgType": "fun r => body NM b = Asg.block r",
 "classicalDeclarationStatementToAsgStmt": "fun r => Skel.node \"DeclareClassical\" [opt (Ast.optExpr NM e)] = Asg.stmt r",
 "assignmentStmtToAsgStmt": "fun r => some (Skel.node \"Assignment\" [Ast.lvalue NM i ii, opt (Ast.optExpr NM rhs)]) = r.map Asg.stmt",
 "indexedIdentifierToAsgType": "fun r => Ast.indexedIdent NM ii = Asg.indexedIdent r.1",
 "indexOperatorsLoop": "fun r => Ast.indexOps NM ixs = Asg.indexOps r",
}
CUSTOM = {
 "exprToAsgTexpr": "  rcases e with _ | e\n  · unfold Oq3.Sema.exprToAsgTexpr; post\n  unfold Oq3.Sema.exprToAsgTexpr; post",
 "exprStmtToAsgStmt": "  rcases e with _ | e\n  · unfold Oq3.Sema.exprStmtToAsgStmt; post\n"
                      "  cases e <;> (try cases ‹Ast.GPhaseCallExpr›) <;> (unfold Oq3.Sema.exprStmtToAsgStmt; post)",
}


def gen():
    o=[]
    o.append("/-- the skeleton facts for all functions of the mutual block at one fuel -/")
    o.append("structure AllSk (fuel : Nat) : Prop where")
    for n,b in MUT:
        o.append(f"  {n} : ∀ {b}, Post (Oq3.Sema.{n} fuel {' '.join(names(b))}) ({POSTS[n]})")
    o.append("")
    alts=[]
    for n,b in MUT:
        u=' '.join('_' for _ in names(b))
        alts.append(f"with_reducible refine Post.bind (h_{n} {u}) (fun _ he => ?_)")
        alts.append(f"with_reducible exact h_{n} {u}")
        alts.append(f"with_reducible refine Post.mono (h_{n} {u}) (fun _ he => ?_)")
    o.append("set_option hygiene false in")
    o.append("macro_rules | `(tactic| post_clear) => `(tactic| try clear " + " ".join(f"h_{n}" for n, _ in MUT) + ")\n")
    o.append("set_option hygiene false in")
    o.append("macro_rules | `(tactic| post_ih) => `(tactic| first\n  | "+"\n  | ".join(alts)+")\n")
    pat="⟨"+", ".join(f"h_{n}" for n,_ in MUT)+"⟩"
    for n,b in MUT:
        o.append("set_option maxHeartbeats 4000000 in")
        o.append(f"theorem {n}_sk_step (fuel : Nat) (ih : AllSk fuel) {b} :")
        o.append(f"    Post (Oq3.Sema.{n} (fuel + 1) {' '.join(names(b))}) ({POSTS[n]}) := by")
        o.append(f"  obtain {pat} := ih")
        o.append(CUSTOM.get(n, f"  unfold Oq3.Sema.{n}\n  try simp only [withScope, bind_assoc, pure_bind]\n  post") + "\n")
    o.append("theorem allSk (fuel : Nat) : AllSk fuel := by")
    o.append("  induction fuel with")
    o.append("  | zero =>")
    o.append("    constructor")
    for n,b in MUT:
        o.append(f"    · intros; unfold Oq3.Sema.{n}; post")
    o.append("  | succ fuel ih =>")
    o.append("    constructor")
    for n,b in MUT:
        o.append(f"    · intros; exact {n}_sk_step fuel ih {' '.join('_' for _ in names(b))}")
    o.append("")
    return "\n".join(o)
if __name__=="__main__":
    print(gen())
