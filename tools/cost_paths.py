#!/usr/bin/env python3
"""Path analysis of the bodies of Oq3/Model/Grammar.lean for tools/gen_grammar_cost2.py.

The bodies are `do` blocks in a regular style; they are read as indentation trees and evaluated
with `sequence = sum`, `if / else / match arms = max`; a branch that ends in `return` or `panic`
ends the path.  For a weight system (cost of the parser-API calls, once for a call that consumes a
token and once for one that does not) the analysis yields, per function (the parameter-list
functions per flavor):

  N     max cost of a path on which no token is consumed (callees contribute their N); a path
        through `bump K`, through a function that always consumes, or through a call site listed
        in CTX_ALWAYS is not such a path
  T     max cost of a complete path (callees contribute their N: what a callee spends beyond that is
        paid by the tokens it consumes)
  thru  per call site: max cost of a complete path through that site
  Bud   budget needed before the first token is consumed: max over positions reached without
        consuming of cost so far + (cost of the API call | Bud of the callee)
  Q     max over call sites of cost so far + Bud of the callee

Nothing here is trusted: the constants derived from it are checked by Lean; a constant that is too
small makes the generated proof fail.
"""
import re, os, sys
sys.path.insert(0, os.path.dirname(os.path.abspath(__file__)))
import rank_edges
import gen_grammar_progress as gp

src = gp.src
leaf_names = [d[0] for d in gp.leaf]
mut_names = [d[0] for d in gp.mut]
N_EDGES, WRAP, FLAVORS, TRIO = rank_edges.N, rank_edges.WRAP, rank_edges.FLAVORS, gp.TRIO
SKIP = ("currentOpScan", "bumpUntilEof", "currentOp", "typeName")
NEG = -10**9

# functions that consume a token whenever they return (their progress clause in gen_grammar_progress.SPEC is unconditional)
ALWAYS = {f for f, (tp, cl) in gp.SPEC.items() if gp.PG in cl and f not in ("castExpr", "arrayTypeSpec", "arrayLiteral")}
# call sites at which the callee consumes a token because of what the caller has checked
CTX_ALWAYS = {
    ("atomExpr", "modifiedGateCallExpr"), ("atomExpr", "gateCallExpr"), ("atomExpr", "identifier"), ("atomExpr", "castExpr"),
    ("optItem", "classicalDeclarationStmt"), ("optItem", "ioDeclarationStmt"),
    ("stmt", "qOrCRegDeclaration"), ("item", "exprBlockStatements"),
    ("typeSpec", "arrayTypeSpec"), ("paramTypeSpec", "arrayTypeSpec"), ("paramTyped", "qOrCRegParam"),
    ("paramListItem@arrayLiteral", "arrayLiteral"), ("returnsBoolClassicalDeclarationStmt", "arrayLiteral"),
}

def strip(line):
    line = re.sub(r"--.*", "", line)
    return re.sub(r's?!?"[^"\n]*"', '""', line)

def body_lines(name):
    ms = list(re.finditer(r"^def\s+([A-Za-z_][A-Za-z0-9_'.]*)", src, flags=re.M))
    for i, m in enumerate(ms):
        if m.group(1) != name:
            continue
        end = ms[i + 1].start() if i + 1 < len(ms) else len(src)
        txt = src[m.end():end]
        for stop in ("\ntermination_by", "\n/--", "\n-- (no `termination_by", "\nend\n", "\n/-!"):
            j = txt.find(stop)
            if j >= 0:
                txt = txt[:j]
        k = txt.find(":=")
        txt = txt[k + 2:]
        lines = [strip(l).rstrip() for l in txt.split("\n")]
        lines = [l for l in lines if l.strip()]
        for j, l in enumerate(lines):
            if re.match(r"\s*\| fuel\+1 =>", l):
                first = l.split("=>", 1)[1].strip()
                ind = len(l) - len(l.lstrip())
                rest = lines[j + 1:]
                if first and first != "do":
                    rest = [" " * (ind + 2) + first] + rest
                return rest
        return lines
    raise KeyError(name)

def join_continuations(lines):
    out, buf, depth = [], None, 0
    for l in lines:
        d = sum(l.count(c) for c in "([{") - sum(l.count(c) for c in ")]}")
        if buf is None:
            if d > 0:
                buf, depth = l, d
            else:
                out.append(l)
        else:
            buf += " " + l.strip()
            depth += d
            if depth <= 0:
                out.append(buf); buf = None
    if buf is not None:
        out.append(buf)
    return out

class Node:
    def __init__(self, ind, text):
        self.ind, self.text, self.kids = ind, text, []

def tree(lines):
    root = Node(-1, "")
    stack = [root]
    for l in lines:
        ind = len(l) - len(l.lstrip())
        n = Node(ind, l.strip())
        while stack[-1].ind >= ind:
            stack.pop()
        stack[-1].kids.append(n)
        stack.append(n)
    return root.kids

# (pattern, cost when the call consumes, cost when it does not)
EV = [(r"(?<![.\w])start\b", 1, 1), (r"(?<![.\w])error\s", 1, 1), (r"\.complete\b", 1, 1), (r"\.precede\b", 1, 1),
      (r"(?<![.\w])eat\b", 1, 0), (r"(?<![.\w])bump\b", 1, 1), (r"(?<![.\w])bumpAny\b", 1, 0), (r"(?<![.\w])expect\b", 1, 1),
      (r"(?<![.\w])typeName\b", 1, 1), (r"(?<![.\w])errRecover\b", 4, 4), (r"(?<![.\w])errAndBump\b", 4, 4)]
ST = [(r"(?<![.\w])nth\b", 1, 1)]

EMPTY = dict(N=0, T=0, ret=False, sites=[], Bud=0, Q=0)

class Analysis:
    def __init__(self, weights):
        self.weights = weights
        self.N, self.T, self.thru, self.Bud, self.Q = {}, {}, {}, {}, {}

    def cost(self, text, full):
        return sum((wf if full else wn) * len(re.findall(p, text)) for p, wf, wn in self.weights)

    def calls(self, text, flavor):
        out = []
        for g in mut_names:
            for _ in re.findall(r"(?<![.\w])" + re.escape(g) + r" fuel\b", text):
                if g == "paramListOpenqasm":
                    m = re.search(r"paramListOpenqasm fuel \.(\w+)", text)
                    out.append(f"paramListOpenqasm@{m.group(1)}")
                elif g in TRIO:
                    out.append(f"{g}@{flavor}")
                else:
                    out.append(g)
        for g in leaf_names:
            if g in SKIP:
                continue
            for _ in re.findall(r"(?<![.\w'])" + re.escape(g) + r"(?![\w'.])", text):
                out.append(g)
        return out

    def group(self, nodes, flavor):
        out, i = [], 0
        while i < len(nodes):
            n = nodes[i]
            t = n.text
            if re.match(r"(if|else if)\b", t) and re.search(r"\bthen( do)?$", t):
                hdr, alts, has_else = t, [n.kids], False
                i += 1
                while i < len(nodes) and nodes[i].text.startswith("else"):
                    e = nodes[i]
                    if re.match(r"else if\b", e.text) and re.search(r"\bthen( do)?$", e.text):
                        hdr += " " + e.text; alts.append(e.kids)
                    elif e.text in ("else", "else do"):
                        alts.append(e.kids); has_else = True
                    else:
                        alts.append([Node(e.ind + 2, e.text[4:].strip())]); has_else = True
                    i += 1
                out.append((hdr, alts, has_else))
                continue
            if re.search(r"\bmatch\b.*\bwith$", t):
                arms = [k for k in n.kids if k.text.startswith("|")]
                i += 1
                while i < len(nodes) and nodes[i].text.startswith("|"):
                    arms.append(nodes[i]); i += 1
                alts = []
                for a in arms:
                    pat, _, rest = a.text.partition("=>")
                    if flavor is not None and "match flavor" in t:
                        if flavor not in re.findall(r"\.(\w+)", pat):
                            continue
                    rest = rest.strip()
                    kids = ([Node(a.ind + 2, rest)] if rest and rest != "do" else []) + a.kids
                    alts.append(kids)
                out.append((t, alts, True))
                continue
            if n.kids:
                out.append((t, [n.kids], True))
            else:
                out.append((t, None, True))
            i += 1
        return out

    def block(self, nodes, fnode, flavor, known=frozenset()):
        return self.seq(self.group(nodes, flavor), 0, fnode, flavor, known)

    @staticmethod
    def tested(hdr):
        """token kinds that the condition `hdr` establishes for its then-branch"""
        ks = set(re.findall(r"(?<![!\w])\(← at' \.(\w+)\)", hdr)) | set(re.findall(r"== \.(\w+)", hdr))
        if re.search(r"notM \(at'", hdr):
            ks -= set(re.findall(r"notM \(at' \.(\w+)\)", hdr))
        return frozenset(ks)

    def seq(self, stmts, i, fnode, flavor, known=frozenset()):
        if i == len(stmts):
            return EMPTY
        hdr, alts, has_else = stmts[i]
        # `assert!(p.at(K))` / `if !at_ts(..) return`: the rest of the sequence knows the current token
        known_rest = known
        if alts is None and re.match(r"if !\(← at' \.(\w+)\) then panic", hdr):
            known_rest = known | {re.match(r"if !\(← at' \.(\w+)\)", hdr).group(1)}
        if alts is not None and re.match(r"if !\(← atTs \w+\) then$", hdr) and len(alts) == 1:
            known_rest = known | {"<set>"}
        certain_prim = False
        if alts is None and known:
            m = re.search(r"(?<![.\w])(expect|eat) \.(\w+)", hdr)
            if (m and m.group(2) in known) or re.search(r"(?<![.\w])bumpAny\b", hdr):
                certain_prim = True
        if alts is None and (certain_prim or re.search(r"(?<![.\w])(bump|bumpAny|expect|eat|typeName|errRecover|errAndBump)\b", hdr)
                             or self.calls(hdr, flavor)):
            known_rest = frozenset() if not re.match(r"if !\(← at'", hdr) else known_rest
        rest = self.seq(stmts, i + 1, fnode, flavor, known_rest)
        calls = self.calls(hdr, flavor)
        hfull = self.cost(hdr, True) + sum(self.N[g] for g in calls)
        hnc = self.cost(hdr, False) + sum(self.N[g] for g in calls)
        hneed = self.cost(hdr, True) + sum(max(self.Bud[g], self.N[g]) for g in calls)
        is_panic = bool(re.search(r"\bpanic\b", hdr))
        if alts is None and is_panic and not re.match(r"if\b", hdr):
            return dict(N=NEG, T=0, ret=True, sites=[], Bud=0, Q=0)
        consumes = alts is None and (bool(re.search(r"(?<![.\w])bump\b", hdr)) or certain_prim or
                                     any(g in ALWAYS or (fnode, g) in CTX_ALWAYS for g in calls))
        if alts is not None:
            consumes = any(g in ALWAYS or (fnode, g) in CTX_ALWAYS for g in calls)
        late = any((g not in leaf_names) and (g not in N_EDGES[fnode]) for g in calls)
        consumes = consumes or late
        terminal = alts is None and bool(re.match(r"return\b", hdr))
        if alts is None:
            branches = [dict(N=0, T=0, ret=terminal, sites=[], Bud=0, Q=0)]
        else:
            branches = [self.block(a, fnode, flavor, (known | self.tested(hdr)) if k == 0 and re.match(r"if\b", hdr) else frozenset())
                        for k, a in enumerate(alts)]
            if not has_else:
                branches.append(EMPTY)
        T = hfull + max(b["T"] + (0 if b["ret"] else rest["T"]) for b in branches)
        nonret = [b for b in branches if not b["ret"]]
        sites = [(g, T) for g in calls]
        for b in branches:
            for g, th in b["sites"]:
                sites.append((g, hfull + th + (0 if b["ret"] else rest["T"])))
        if nonret:
            through_s = hfull + max(b["T"] for b in nonret)
            for g, th in rest["sites"]:
                sites.append((g, through_s + th))
        # non-consuming paths
        if consumes:
            Nn = NEG
        else:
            Nn = max([hnc + b["N"] + (0 if b["ret"] else rest["N"]) for b in branches], default=NEG)
            if Nn < NEG // 2:
                Nn = NEG
        # budget before the first consumption
        if late:
            Bud = 0
        else:
            cands = [hneed]
            if not consumes:
                for b in branches:
                    cands.append(hnc + b["Bud"])
                    if not b["ret"] and b["N"] > NEG // 2:
                        cands.append(hnc + b["N"] + rest["Bud"])
            Bud = max(cands)
        # any position: cost so far + budget of the callee
        Qs = [self.cost(hdr, True) + sum(max(self.Bud[g], self.N[g]) for g in calls) if calls else 0]
        for b in branches:
            Qs.append(hfull + b["Q"])
            if not b["ret"]:
                Qs.append(hfull + b["T"] + rest["Q"])
        ret = all(b["ret"] or rest["ret"] for b in branches)
        return dict(N=Nn, T=T, ret=ret, sites=sites, Bud=Bud, Q=max(Qs))

    def run(self):
        def nodes_of(name):
            return [f"{name}@{f}" for f in FLAVORS] if name in TRIO else [name]
        allnodes = [n for n in leaf_names if n not in SKIP]
        for n in mut_names:
            allnodes += nodes_of(n)
        self.allnodes = allnodes
        trees = {}
        for n in allnodes:
            base = n.split("@")[0]
            if base not in trees:
                trees[base] = tree(join_continuations(body_lines(base)))
        for n in allnodes:
            self.N[n], self.Bud[n] = 0, 0
        for _ in range(60):
            changed = False
            for n in allnodes:
                base, _, fl = n.partition("@")
                r = self.block(trees[base], n, fl or None)
                nn = 0 if base in ALWAYS else max(r["N"], 0)
                if nn != self.N[n] or max(r["Bud"], nn) != self.Bud[n]:
                    self.N[n], self.Bud[n] = nn, max(r["Bud"], nn); changed = True
            if not changed:
                break
        assert not changed, "N / Bud do not stabilise"
        for n in allnodes:
            base, _, fl = n.partition("@")
            r = self.block(trees[base], n, fl or None)
            self.T[n] = max(r["T"], self.N[n])
            self.Q[n] = max(r["Q"], self.Bud[n])
            th = {}
            for g, c in r["sites"]:
                th[g] = max(th.get(g, 0), c)
            self.thru[n] = th
        return self

def constants(weights, override=None):
    an = Analysis(weights).run()
    Nn, T, thru, Bud, Q, allnodes = an.N, an.T, an.thru, an.Bud, an.Q, an.allnodes
    for k, v in (override or {}).items():
        for key, val in v.items():
            {"N": Nn, "T": T, "Bud": Bud, "Q": Q}[k][key] = val
    def pre_callee(f, g):
        return g in leaf_names or g in N_EDGES.get(f, [])
    parents = {n: [] for n in allnodes}
    for f in allnodes:
        for g in thru[f]:
            if g in parents and (f in leaf_names or pre_callee(f, g)):
                parents[g].append(f)
    D = {n: 0 for n in allnodes}
    for _ in range(100):
        changed = False
        for n in allnodes:
            d = 0
            for p in parents[n]:
                d = max(d, D[p] + thru[p][n] - Nn[p], Q[p] - Bud[p])
            if d != D[n]:
                D[n], changed = d, True
        if not changed:
            break
    assert not changed, "D does not stabilise"
    RR = 1 + max(max(T[n] + D[n] - Nn[n], Q[n] - Bud[n]) for n in allnodes)
    return dict(N=Nn, T=T, D=D, RR=RR, thru=thru, Bud=Bud, Q=Q, nodes=allnodes)

if __name__ == "__main__":
    for nm, w in (("events", EV), ("steps", ST)):
        c = constants(w)
        print(nm, "RR =", c["RR"], " max N", max(c["N"].values()), " max Bud", max(c["Bud"].values()), " max T", max(c["T"].values()),
              " max D", max(c["D"].values()), " Bud_sfc", c["Bud"]["sourceFileContents"])
        if "--table" in sys.argv:
            for n in c["nodes"]:
                print(f"  {n:42s} N={c['N'][n]:4d} Bud={c['Bud'][n]:4d} T={c['T'][n]:4d} Q={c['Q'][n]:4d} D={c['D'][n]:4d}")
