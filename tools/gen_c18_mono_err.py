import re
def names(b):
    r=[]
    for m in re.finditer(r"\(([^:()]+):",b): r+=m.group(1).split()
    return r
fns=[
 ("stmtToAsgStmt","(st : Ast.Stmt)"),("caseExprsLoop","(cs : List Ast.CaseExpr)"),("exprStmtToAsgStmt","(e : Option Ast.Expr)"),
 ("modifiersLoop","(ms : List Ast.Modifier)"),("parenExprToAsgTexpr","(p : Ast.ParenExpr)"),("exprToAsgTexpr","(e : Option Ast.Expr)"),
 ("setExpressionToAsgType","(se : Ast.SetExpression)"),("rangeExpressionToAsgType","(r : Ast.RangeExpr)"),
 ("gateCallExprToAsgStmt","(gc : Ast.GateCallExpr) (mods : List GateModifier)"),
 ("callExprToAsgTexpr","(sp : Ast.Span) (al : Option Ast.ArgList) (i : Option Ast.Identifier)"),
 ("gateOperandToAsgTexpr","(g : Ast.GateOperand)"),("indexOperatorToAsgType","(ix : Ast.IndexOperator)"),
 ("expressionListToAsgType","(el : Ast.ExpressionList)"),("qubitListToAsgTexpr","(ql : Option Ast.QubitList)"),
 ("gateOperandsLoop","(gs : List Ast.GateOperand)"),("expressionListToAsgTexpr","(el : Ast.ExpressionList)"),
 ("exprsLoop","(es : List Ast.Expr)"),("blockExprToAsgStmtList","(b : Ast.BlockExpr)"),("stmtsLoop","(ss : List Ast.Stmt)"),
 ("blockExprToAsgType","(b : Ast.BlockExpr)"),("blockOrStmtToAsgType","(b : Ast.BlockOrStmt)"),
 ("classicalDeclarationStatementToAsgStmt","(sp : Ast.Span) (arr : Bool) (st : Option Ast.ScalarType) (ct : Bool) (n : Option Ast.Name) (e : Option Ast.Expr)"),
 ("assignmentStmtToAsgStmt","(sp : Ast.Span) (i : Option Ast.Identifier) (rhs : Option Ast.Expr) (ii : Option Ast.IndexedIdentifier)"),
 ("indexedIdentifierToAsgType","(ii : Ast.IndexedIdentifier)"),("indexOperatorsLoop","(ixs : List Ast.IndexOperator)"),
]
o=[]
o.append('''/-
C18, auxiliary — fuel monotonicity of the semantic pass, outcomes included.

`Le2 x y`: every run of `x` that ends otherwise than by running out of fuel — normally, or with a
panic (or `unsupportedInclude`) — is a run of `y` with the same outcome.  For each of the twenty-five
functions `f` of the mutual block: `Le2 (f fuel a) (f (fuel + 1) a)` (`allMono2`), hence the same for
any larger fuel; in particular a panic does not depend on the fuel.

GENERATED proof script (same script as `C18Mono.lean`, for the stronger relation).
-/
import Lean
import Oq3.Props.C18Mono

namespace Oq3.C18E
open Oq3 Oq3.Types Oq3.Symbols Oq3.Sema

/-- every run of `x` that does not end with `Outcome.fuel` is a run of `y`, same outcome -/
structure Le2 {α} (x y : M α) : Prop where
  ok : ∀ c r, x c = .ok r → y c = .ok r
  err : ∀ c o, x c = .error o → o ≠ Outcome.fuel → y c = .error o

theorem Le2.toLe {α} {x y : M α} (h : Le2 x y) : Le x y := ⟨h.ok⟩

theorem Le2.refl {α} (x : M α) : Le2 x x := ⟨fun _ _ h => h, fun _ _ h _ => h⟩

theorem Le2.trans {α} {x y z : M α} (h1 : Le2 x y) (h2 : Le2 y z) : Le2 x z :=
  ⟨fun c r h => h2.ok c r (h1.ok c r h), fun c o h ho => h2.err c o (h1.err c o h ho) ho⟩

theorem Le2.bind {α β} {x y : M α} {f g : α → M β} (hx : Le2 x y) (hf : ∀ a, Le2 (f a) (g a)) :
    Le2 (x >>= f) (y >>= g) := by
  constructor
  · intro c r h
    rw [bind_run] at h ⊢
    cases hxc : x c with
    | error e => rw [hxc] at h; cases h
    | ok p =>
      obtain ⟨a, c1⟩ := p
      rw [hxc] at h
      rw [hx.ok c _ hxc]
      exact (hf a).ok c1 r h
  · intro c o h ho
    rw [bind_run] at h ⊢
    cases hxc : x c with
    | error e =>
      rw [hxc] at h
      simp only [bindRes, Except.error.injEq] at h
      subst h
      rw [hx.err c _ hxc ho]; rfl
    | ok p =>
      obtain ⟨a, c1⟩ := p
      rw [hxc] at h
      rw [hx.ok c _ hxc]
      exact (hf a).err c1 o h ho

theorem Le2.throw_fuel_left {α} (y : M α) : Le2 (throw Outcome.fuel : M α) y := by
  constructor
  · intro c r h; cases h
  · intro c o h ho
    simp only [throw_run, Except.error.injEq] at h
    exact absurd h.symm ho

theorem Le2.withScope {α} (k : ScopeType) {b1 b2 : M α} (h : Le2 b1 b2) :
    Le2 (Sema.withScope k b1) (Sema.withScope k b2) := by
  unfold Sema.withScope
  exact Le2.bind (Le2.refl _) (fun _ => Le2.bind h (fun _ => Le2.refl _))

open Lean Elab Tactic Meta in
/-- the two programs of a goal `Le x y` -/
def le2Progs (g : MVarId) : MetaM (Option (Lean.Expr × Lean.Expr)) := do
  let t ← instantiateMVars (← g.getType)
  let t := t.consumeMData
  if t.isAppOfArity ``Le2 3 then
    return some ((t.getArg! 1).consumeMData, (t.getArg! 2).consumeMData)
  else return none

open Lean Elab Tactic Meta in
/-- the two programs are syntactically the same (no recursive call inside) -/
elab "le2_same" : tactic => withMainContext do
  match ← le2Progs (← getMainGoal) with
  | some (x, y) => if x == y then pure () else throwError "different"
  | none => throwError "not a Le goal"

open Lean Elab Tactic Meta in
elab "le2_head " id:ident : tactic => withMainContext do
  let n ← realizeGlobalConstNoOverloadWithInfo id
  match ← le2Progs (← getMainGoal) with
  | some (x, _) =>
    match x.getAppFn.consumeMData with
    | Lean.Expr.const m _ => if m == n then pure () else throwError "head"
    | _ => throwError "head"
  | none => throwError "not a Le goal"

open Lean Elab Tactic Meta in
def isSplitHead2 (x : Lean.Expr) : MetaM Bool := do
  match x.getAppFn.consumeMData with
  | Lean.Expr.const m _ =>
    if m == ``ite || m == ``dite then return true
    else return (← isMatcher m)
  | _ => return false

open Lean Elab Tactic Meta in
elab "le2_is_split" : tactic => withMainContext do
  match ← le2Progs (← getMainGoal) with
  | some (x, _) => if ← isSplitHead2 x then pure () else throwError "not a split"
  | none => throwError "not a Le goal"

open Lean Elab Tactic Meta in
elab "le2_is_split_right" : tactic => withMainContext do
  match ← le2Progs (← getMainGoal) with
  | some (_, y) => if ← isSplitHead2 y then pure () else throwError "not a split"
  | none => throwError "not a Le goal"

open Lean Elab Tactic Meta in
/-- close the goal from a hypothesis `∀ xs, a = b → False` whose equation holds by `rfl`
(a branch of a `match` excluded by an earlier pattern) -/
elab "le2_absurd" : tactic => withMainContext do
  let g ← getMainGoal
  for ldecl in ← getLCtx do
    if ldecl.isImplementationDetail then continue
    let t ← instantiateMVars ldecl.type
    if !t.isForall then continue
    let ok ← commitWhen do
      let (args, _, body) ← forallMetaTelescopeReducing t
      if !(body.isConstOf ``False) || args.size == 0 then return false
      let last := args.back!
      let lt ← instantiateMVars (← inferType last)
      match lt.eq? with
      | some (_, a, b) =>
        if ← isDefEq a b then
          last.mvarId!.assign (← mkEqRefl a)
          let prf := mkAppN ldecl.toExpr args
          let prf ← instantiateMVars prf
          if prf.hasExprMVar then return false
          g.assign (← mkFalseElim (← g.getType) prf)
          return true
        else return false
      | none => return false
    if ok then
      replaceMainGoal []
      return
  throwError "no absurd hypothesis"

syntax "le2_lemma" : tactic
macro_rules | `(tactic| le2_lemma) => `(tactic| fail "no lemma")
syntax "le2_ih" : tactic
macro_rules | `(tactic| le2_ih) => `(tactic| fail "no ih")

macro "le2_step" : tactic => `(tactic| first
  | (cases ‹_ + 1 = Nat.succ _›)
  | (exact absurd ‹_ + 1 = 0› (Nat.succ_ne_zero _))
  | le2_absurd
  | (le2_same; exact Le2.refl _)
  | (le2_head throw; exact Le2.throw_fuel_left _)
  | (le2_head Sema.withScope; with_reducible apply Le2.withScope)
  | le2_lemma
  | le2_ih
  | (le2_head Bind.bind; with_reducible apply Le2.bind)
  | intro _
  | dsimp only
  | (le2_is_split; split)
  | (le2_is_split_right; split))

macro "le2" : tactic => `(tactic| repeat' le2_step)
''')
o.append("/-- all twenty-five functions of the mutual block: one more unit of fuel changes nothing -/")
o.append("structure AllMono2 (fuel : Nat) : Prop where")
for n,b in fns:
    o.append(f"  {n} : ∀ {b}, Le2 (Sema.{n} fuel {' '.join(names(b))}) (Sema.{n} (fuel + 1) {' '.join(names(b))})")
o.append("")
alts=[f"(le2_head Sema.{n}; exact m_{n} {' '.join('_' for _ in names(b))})" for n,b in fns]
o.append("set_option hygiene false in")
o.append("macro_rules | `(tactic| le2_ih) => `(tactic| first\n  | "+"\n  | ".join(alts)+")\n")
pat="⟨"+", ".join(f"m_{n}" for n,_ in fns)+"⟩"
for n,b in fns:
    a=' '.join(names(b))
    o.append("set_option maxHeartbeats 1600000 in")
    o.append(f"theorem {n}_mono2 (fuel : Nat) (ih : AllMono2 fuel) {b} :")
    o.append(f"    Le2 (Sema.{n} (fuel + 1) {a}) (Sema.{n} (fuel + 1 + 1) {a}) := by")
    o.append(f"  obtain {pat} := ih")
    o.append(f"  unfold Sema.{n}; le2\n")
o.append("theorem allMono2 (fuel : Nat) : AllMono2 fuel := by")
o.append("  induction fuel with")
o.append("  | zero =>")
o.append("    constructor")
for n,b in fns:
    o.append(f"    · intros; conv => lhs; unfold Sema.{n}")
    o.append(f"      exact Le2.throw_fuel_left _")
o.append("  | succ fuel ih =>")
o.append("    constructor")
for n,b in fns:
    o.append(f"    · intros; exact {n}_mono2 fuel ih {' '.join('_' for _ in names(b))}")
o.append('''
/-- more fuel changes neither a successful run nor a panic (statement function) -/
theorem stmtToAsgStmt_mono2_le {fuel fuel' : Nat} (h : fuel ≤ fuel') (st : Ast.Stmt) :
    Le2 (Sema.stmtToAsgStmt fuel st) (Sema.stmtToAsgStmt fuel' st) := by
  induction h with
  | refl => exact Le2.refl _
  | step _ ih => exact ih.trans ((allMono2 _).stmtToAsgStmt st)

theorem syntaxToSemanticLoop_mono2_step (fuel : Nat) (ss : List Ast.Stmt) :
    Le2 (Sema.syntaxToSemanticLoop fuel ss) (Sema.syntaxToSemanticLoop (fuel + 1) ss) := by
  induction fuel generalizing ss with
  | zero => conv => lhs; unfold Sema.syntaxToSemanticLoop
            exact Le2.throw_fuel_left _
  | succ fuel ih =>
    have m_stmt := (allMono2 fuel).stmtToAsgStmt
    unfold Sema.syntaxToSemanticLoop
    repeat' first
      | (le2_head Sema.stmtToAsgStmt; exact m_stmt _)
      | (le2_head Sema.syntaxToSemanticLoop; exact ih _)
      | le2_step

/-- the top-level loop: more fuel changes neither a successful run nor a panic -/
theorem syntaxToSemanticLoop_mono2 {fuel fuel' : Nat} (h : fuel ≤ fuel') (ss : List Ast.Stmt) :
    Le2 (Sema.syntaxToSemanticLoop fuel ss) (Sema.syntaxToSemanticLoop fuel' ss) := by
  induction h with
  | refl => exact Le2.refl _
  | step _ ih => exact ih.trans (syntaxToSemanticLoop_mono2_step _ ss)

end Oq3.C18E
''')
open(__import__('os').path.join(__import__('os').path.dirname(__import__('os').path.dirname(__import__('os').path.abspath(__file__))),'lean','Oq3','Props','C18MonoErr.lean'),'w').write("\n".join(o))
