#!/usr/bin/env python3
"""Translate `crates/oq3_syntax/src/ast/generated/nodes.rs` into `Oq3/Gen/Nodes.lean`.

nodes.rs is itself generated (`sourcegen_ast`) and completely regular:

  * `pub struct X { syntax }` + `impl AstNode for X { can_cast(kind) = kind == K }`
  * `impl X { pub fn m(&self) -> Option<T> { support::child(&self.syntax) } ... }`
      - `support::child`     -> `Option<T>`
      - `support::children`  -> `AstChildren<T>`
      - `support::token(&self.syntax, T![tok])` -> `Option<SyntaxToken>`
  * `impl ast::HasName for X {}` / `impl ast::HasArgList for X {}` (trait default methods of
    ast/traits.rs: `name()` = `support::child::<Name>`, `arg_list()` = `support::child::<ArgList>`)
  * `pub enum E { V(V), ... }` + `impl AstNode for E { can_cast = matches!(kind, K1 | K2 ...);
    cast = match kind { K1 => E::V1(V1 { syntax }), ... } }`

Every item is translated one to one; anything that does not have the expected shape raises
`ExtractError` (so a change of the generator's output is reported instead of silently dropped).

usage: gen_accessor_tables.py [REPO] [OUT.lean]      (defaults: $OQ3_REPO or /repo, stdout)
"""
import os
import re
import sys


class ExtractError(Exception):
    pass


NODES = "crates/oq3_syntax/src/ast/generated/nodes.rs"
KINDS = "crates/oq3_parser/src/syntax_kind/syntax_kind_enum.rs"
TRAITS = "crates/oq3_syntax/src/ast/traits.rs"

# trait -> (method, target type); checked against traits.rs below
TRAIT_METHODS = {"HasName": ("name", "Name"), "HasArgList": ("arg_list", "ArgList")}


def t_macro_table(src):
    m = re.search(r"macro_rules\s*!\s*T\s*\{(.*)\}\s*(?:pub use T;)?\s*$", src, flags=re.S)
    if not m:
        raise ExtractError("T! macro not found")
    tab = {}
    for mm in re.finditer(r"\[(.+?)\]\s*=>\s*\{\s*\$\s*crate\s*::\s*SyntaxKind\s*::\s*([A-Za-z_0-9]+)\s*\}", m.group(1)):
        tab[mm.group(1).strip()] = mm.group(2)
    if len(tab) < 100:
        raise ExtractError("T! macro: too few rows")
    return tab


def block_after(src, start):
    """text of the `{...}` block whose `{` is the first one at or after `start`; returns (body, end)"""
    i = src.index("{", start)
    depth = 0
    j = i
    while j < len(src):
        c = src[j]
        if c == "{":
            depth += 1
        elif c == "}":
            depth -= 1
            if depth == 0:
                return src[i + 1:j], j + 1
        j += 1
    raise ExtractError("unbalanced braces")


def parse_nodes(src, T):
    # the only braces inside character literals are T!['{'] / T!['}']: protect them from the brace matcher
    src = src.replace("'{'", "'LCURLY_CH'").replace("'}'", "'RCURLY_CH'")
    structs = []          # names in file order
    enums = {}            # name -> [variant names]
    order = []            # ("struct"|"enum", name) in file order
    for m in re.finditer(r"pub (struct|enum) (\w+) \{", src):
        what, name = m.group(1), m.group(2)
        body, _ = block_after(src, m.start())
        if what == "struct":
            if body.split() != ["pub(crate)", "syntax:", "SyntaxNode,"]:
                raise ExtractError(f"struct {name}: unexpected fields")
            structs.append(name)
        else:
            vs = []
            for line in body.split(","):
                line = line.strip()
                if not line:
                    continue
                mm = re.fullmatch(r"(\w+)\((\w+)\)", line)
                if not mm or mm.group(1) != mm.group(2):
                    raise ExtractError(f"enum {name}: variant {line!r} not of the form V(V)")
                vs.append(mm.group(1))
            enums[name] = vs
        order.append((what, name))

    # inherent impls: methods
    methods = {s: [] for s in structs}
    for m in re.finditer(r"^impl (\w+) \{", src, flags=re.M):
        name = m.group(1)
        if name.startswith("AnyHas"):
            continue        # type-erased wrappers (`AnyHasName::new`): no accessors of their own
        if name not in methods:
            raise ExtractError(f"impl {name}: not a node struct")
        body, _ = block_after(src, m.start())
        pos = 0
        for mm in re.finditer(r"pub fn (\w+)\(&self\) -> ([^{]+?)\s*\{", body):
            fname, ret = mm.group(1), mm.group(2).strip()
            fbody, _ = block_after(body, mm.end() - 1)
            fbody = " ".join(fbody.split())
            r1 = re.fullmatch(r"Option<(\w+)>", ret)
            r2 = re.fullmatch(r"AstChildren<(\w+)>", ret)
            if fbody == "support::child(&self.syntax)" and r1 and r1.group(1) != "SyntaxToken":
                methods[name].append((fname, "child", r1.group(1)))
            elif fbody == "support::children(&self.syntax)" and r2:
                methods[name].append((fname, "children", r2.group(1)))
            else:
                mt = re.fullmatch(r"support::token\(&self\.syntax, T!\[(.+)\]\)", fbody)
                if mt and ret == "Option<SyntaxToken>":
                    key = mt.group(1).strip().replace("'LCURLY_CH'", "'{'").replace("'RCURLY_CH'", "'}'")
                    if key not in T:
                        raise ExtractError(f"{name}::{fname}: T![{key}] unknown")
                    methods[name].append((fname, "token", T[key]))
                else:
                    raise ExtractError(f"{name}::{fname}: body {fbody!r} / return {ret!r} not understood")
            pos = mm.end()
        n_fn = len(re.findall(r"\bfn\b", body))
        if n_fn != len([1 for _ in re.finditer(r"pub fn (\w+)\(&self\) -> ([^{]+?)\s*\{", body)]):
            raise ExtractError(f"impl {name}: a method was not recognised")

    # trait impls
    traits = {s: [] for s in structs}
    for m in re.finditer(r"^impl ast::(\w+) for (\w+) \{\}", src, flags=re.M):
        tr, name = m.group(1), m.group(2)
        if name.startswith("AnyHas"):
            continue
        if tr not in TRAIT_METHODS:
            raise ExtractError(f"impl ast::{tr} for {name}: unknown trait")
        if name not in traits:
            raise ExtractError(f"impl ast::{tr} for {name}: not a node struct")
        traits[name].append(tr)

    # AstNode impls
    kind_of = {}
    enum_kinds = {}
    enum_cast = {}
    for m in re.finditer(r"^impl AstNode for (\w+) \{", src, flags=re.M):
        name = m.group(1)
        if name.startswith("AnyHas"):
            continue
        body, _ = block_after(src, m.start())
        cm = re.search(r"fn can_cast\(kind: SyntaxKind\) -> bool \{", body)
        if not cm:
            raise ExtractError(f"AstNode for {name}: can_cast not found")
        cc, _ = block_after(body, cm.end() - 1)
        cc = " ".join(cc.split())
        if name in methods:
            mm = re.fullmatch(r"kind == (\w+)", cc)
            if not mm:
                raise ExtractError(f"AstNode for {name}: can_cast {cc!r}")
            kind_of[name] = mm.group(1)
            cm2 = re.search(r"fn cast\(syntax: SyntaxNode\) -> Option<Self> \{", body)
            cb, _ = block_after(body, cm2.end() - 1)
            if " ".join(cb.split()) != "if Self::can_cast(syntax.kind()) { Some(Self { syntax }) } else { None }":
                raise ExtractError(f"AstNode for {name}: cast has an unexpected body")
        elif name in enums:
            mm = re.fullmatch(r"matches!\( ?kind, (.+?) ?\)", cc)
            if mm:
                ks = [k.strip() for k in mm.group(1).split("|")]
            else:
                mm = re.fullmatch(r"matches!\(kind, (.+)\)", cc)
                if not mm:
                    raise ExtractError(f"AstNode for {name}: can_cast {cc!r}")
                ks = [k.strip() for k in mm.group(1).split("|")]
            enum_kinds[name] = ks
            cm2 = re.search(r"fn cast\(syntax: SyntaxNode\) -> Option<Self> \{", body)
            cb, _ = block_after(body, cm2.end() - 1)
            arms = re.findall(r"(\w+) => (?:\{\s*)?(\w+)::(\w+)\((\w+) \{ syntax \}\)", cb)
            tab = []
            for k, e, v, s in arms:
                if e != name or v != s:
                    raise ExtractError(f"AstNode for {name}: cast arm {k}")
                tab.append((k, v))
            if "_ => return None" not in cb:
                raise ExtractError(f"AstNode for {name}: cast has no default arm")
            enum_cast[name] = tab
        elif name.startswith("AnyHas"):
            continue
        else:
            raise ExtractError(f"AstNode for {name}: unknown type")

    for s in structs:
        if s.startswith("AnyHas"):
            continue
        if s not in kind_of:
            raise ExtractError(f"struct {s}: no AstNode impl")
    for e, vs in enums.items():
        if e not in enum_kinds:
            raise ExtractError(f"enum {e}: no AstNode impl")
        # can_cast and cast must agree, and every variant's kind is the variant struct's kind
        if sorted(enum_kinds[e]) != sorted(k for k, _ in enum_cast[e]):
            raise ExtractError(f"enum {e}: can_cast and cast disagree")
        if sorted(vs) != sorted(v for _, v in enum_cast[e]):
            raise ExtractError(f"enum {e}: cast does not cover the variants")
        for k, v in enum_cast[e]:
            if kind_of.get(v) != k:
                raise ExtractError(f"enum {e}: variant {v} cast from {k}, struct kind {kind_of.get(v)}")
    structs = [s for s in structs if not s.startswith("AnyHas")]
    return structs, enums, methods, traits, kind_of, enum_cast


def check_traits(src):
    for tr, (meth, ty) in TRAIT_METHODS.items():
        m = re.search(r"pub trait " + tr + r": AstNode \{\s*fn " + meth + r"\(&self\) -> Option<ast::" + ty +
                      r"> \{\s*support::child\(self\.syntax\(\)\)\s*\}\s*\}", src)
        if not m:
            raise ExtractError(f"traits.rs: {tr}::{meth} is not `support::child::<{ty}>`")


def generate(repo):
    def read(rel):
        return open(os.path.join(repo, rel), encoding="utf-8").read()
    T = t_macro_table(read(KINDS))
    check_traits(read(TRAITS))
    structs, enums, methods, traits, kind_of, enum_cast = parse_nodes(read(NODES), T)
    all_kinds = set(re.findall(r"\b([A-Z][A-Z_0-9a-z]*)\b", read(KINDS)))
    o = []
    o.append(f"/- GENERATED by /verif/tools/gen_accessor_tables.py (via /verif/vf/extract.py) from {NODES} — do not edit. -/")
    o.append("import Oq3.Model.CNode\n")
    o.append("namespace Oq3.Acc")
    o.append("open Oq3.Gen\n")
    o.append("/-! ### `AstNode::can_cast` of every node struct (`kind == K`) -/\n")
    for s in structs:
        k = kind_of[s]
        if k not in all_kinds:
            raise ExtractError(f"{s}: kind {k} is not a SyntaxKind")
        o.append(f"def {s}.syntaxKind : SyntaxKind := .{k}")
        o.append(f"def {s}.canCast (k : SyntaxKind) : Bool := k == .{k}")
    o.append("\n/-- struct name of a node kind (the name the typed-AST dump prints) -/")
    o.append("def structName : SyntaxKind → Option String")
    for s in structs:
        o.append(f"  | .{kind_of[s]} => some \"{s}\"")
    o.append("  | _ => none\n")
    o.append("/-! ### the enums: `can_cast` (= the kinds of the `cast` match) and the variant table -/\n")
    for e, vs in enums.items():
        tab = enum_cast[e]
        o.append(f"/-- `{e}::cast`: kind ↦ variant, in the order of the `match` -/")
        o.append(f"def {e}.variants : List (SyntaxKind × String) := [")
        o.append(",\n".join(f"  (.{k}, \"{v}\")" for k, v in tab))
        o.append("]")
        o.append(f"def {e}.canCast : SyntaxKind → Bool")
        o.append("  " + "\n  ".join(
            " ".join(f"| .{k}" for k, _ in tab[i:i + 6]) for i in range(0, len(tab), 6)) + " => true")
        o.append("  | _ => false\n")
    o.append("/-! ### generated accessors -/\n")
    for s in structs:
        ms = list(methods[s])
        for tr in traits[s]:
            meth, ty = TRAIT_METHODS[tr]
            ms.append((meth, "child", ty))
        if not ms:
            continue
        o.append(f"namespace {s}")
        seen = set()
        for fname, how, arg in ms:
            if fname in seen:
                raise ExtractError(f"{s}::{fname} defined twice")
            seen.add(fname)
            if how == "child":
                if arg not in kind_of and arg not in enums:
                    raise ExtractError(f"{s}::{fname}: unknown target type {arg}")
                o.append(f"def {fname} (n : CNode) : Option CNode := support.child {arg}.canCast n")
            elif how == "children":
                if arg not in kind_of and arg not in enums:
                    raise ExtractError(f"{s}::{fname}: unknown target type {arg}")
                o.append(f"def {fname} (n : CNode) : List CNode := support.children {arg}.canCast n")
            else:
                if arg not in all_kinds:
                    raise ExtractError(f"{s}::{fname}: {arg} is not a SyntaxKind")
                o.append(f"def {fname} (n : CNode) : Option CNode := support.token n .{arg}")
        o.append(f"end {s}\n")
    o.append("end Oq3.Acc")
    return "\n".join(o) + "\n"


if __name__ == "__main__":
    repo = sys.argv[1] if len(sys.argv) > 1 else os.environ.get("OQ3_REPO", "/repo")
    try:
        txt = generate(repo)
    except ExtractError as e:
        print("ERROR:", e, file=sys.stderr)
        sys.exit(1)
    if len(sys.argv) > 2:
        with open(sys.argv[2], "w", encoding="utf-8") as f:
            f.write(txt)
    else:
        sys.stdout.write(txt)
