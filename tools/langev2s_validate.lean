/-
Validation of the event encoding of Oq3/Lemmas/LangEv2S.lean (extended statements `Stmt2`) against the
grammar model, by evaluation: programs are printed, parsed with `parseSourceFile`, and the events / final
position are compared with `evsP2` / the token count; `process` of the events is compared with `nodesP2`.
  cd /verif/lean && lake env lean ../tools/langev2s_validate.lean
-/
import Oq3.Lemmas.LangEv2S
open Oq3.Gen Oq3.Parser Oq3.Grammar Oq3.PrattEv Oq3.LangEv Oq3.LangEv2

def xi : X := .prim .id
def xn : X := .prim (.lit .int)
def exprs : List X :=
  [xi, xn, .bin .plus xi (.bin .star xn xi), .pre .minus xi, .prim (.paren (.bin .shl xi xn)),
   .prim (.call .id (.cons xn .nil)), .prim (.idIdx (.one (.one (.ex xn)))), .prim (.timing .int), .prim (.lit .float),
   .prim .measureE, .prim (.measureIdx (.one (.one (.ex xn)))), .prim .hw, .prim (.lit .tru)]
def it1 : ItemList := .one (.ex xn)
def it2 : ItemList := .cons (.ex xi) (.one (.r2 xn xi))
def ix1 : IdxList := .one it1
def qs1 : QList := .one .id
def qs2 : QList := .cons (.idx ix1) (.cons .hw (.one .id))
def ofList : List Stmt2 → Stmts2
  | [] => .nil
  | s :: ss => .cons s (ofList ss)
def xl : List X → XList
  | [] => .nil
  | a :: as => .cons a (xl as)

def flat : List Stmt2 :=
  [.decl false .int none none, .decl true .uint (some xn) (some (.bin .plus xi xn)), .decl false .bool none (some xi),
   .decl true .float none (some (.prim (.lit .float))), .decl false .bit none (some (.prim (.measureIdx ix1))),
   .io false .int none, .io true .float (some xn), .qubit none, .qubit (some xn), .oldReg false it1, .oldReg true it1,
   .letS xi, .letS (.prim (.idIdx (.one (.one (.r2 xn xn))))),
   .assign none xn, .assign (some ix1) (.prim .measureE), .assign none (.prim (.measureIdx ix1)),
   .assign (some (.cons it1 ix1)) (.prim (.paren (.bin .plus xi xn))),
   .gate .nil qs1, .gate .nil qs2, .gate (xl [xi]) qs1, .gate (xl [.bin .slash xi xn, .pre .minus xn]) qs2,
   .modGate .inv [] .nil qs1, .modGate (.pow xn) [.inv] (xl [xi]) qs2, .modGate (.ctrl none) [.negctrl (some xn), .ctrl (some xi)] .nil qs2,
   .modGate (.negctrl none) [] (xl [xi, xn]) qs1,
   .gphase (.prim (.paren xi)), .gphase xn, .modGphase (.ctrl none) [] (.prim (.paren xi)), .modGphase .inv [.pow xi] xn,
   .reset .id, .reset .hw, .reset (.idx ix1), .barrier qs1, .barrier qs2, .delay (.prim (.timing .int)) qs1, .delay xi qs2,
   .brk, .cont, .endS, .pragma, .annot, .incl, .version, .externS [] .int, .externS [.int] .float, .externS [.int, .bit, .angle] .bool,
   .ret none, .ret (some (.bin .plus xi xn)),
   .gateDef none 0 .nil, .gateDef (some 1) 1 (.cons (.gate .nil qs1) .nil), .defS [] none .nil,
   .defS [.cls .int, .qubit] (some .float) (.cons (.ret (some xi)) .nil), .cal .nil, .cal (.cons (.gate .nil qs1) .nil)] ++
  exprs.map .exprS

def isAssign : Stmt2 → Bool
  | .assign _ _ => true
  | _ => false
def startsMinus : Stmt2 → Bool
  | .exprS e => (toksX e).head? == some (SyntaxKind.MINUS, false)
  | _ => false
def okSeq : List Stmt2 → Bool
  | a :: b :: rest => !(isAssign a && startsMinus b) && okSeq (b :: rest)
  | _ => true

def check (p : Stmts2) : Bool :=
  let tk := toksL2 p
  match parseSourceFile (20 * tk.length + 80) (tk.map (·.1)).toArray (tk.map (·.2)).toArray with
  | .ok (ev, pos) =>
    ev.toList == evsP2 p && pos == tk.length && process (evsP2 p) == some (nodesP2 p)
  | .error _ => false

def checkEv (p : Stmts2) : Bool :=
  let tk := toksL2 p
  match parseSourceFile (20 * tk.length + 80) (tk.map (·.1)).toArray (tk.map (·.2)).toArray with
  | .ok (ev, pos) => ev.toList == evsP2 p && pos == tk.length
  | .error _ => false

def count (ps : List Stmts2) : Nat × Nat × Nat := (ps.length, (ps.filter fun p => !checkEv p).length, (ps.filter fun p => !check p).length)
def showBad (ps : List Stmts2) : List (List String) :=
  ((ps.filter fun p => !check p).take 4).map fun p => (toksL2 p).map (·.1.name)
def dump (p : Stmts2) : String :=
  let tk := toksL2 p
  match parseSourceFile (20 * tk.length + 80) (tk.map (·.1)).toArray (tk.map (·.2)).toArray with
  | .ok (ev, pos) => s!"{repr ev.toList}\n-- expected\n{repr (evsP2 p)}\n pos {pos} of {tk.length}"
  | .error e => s!"error {repr e}"

-- the item `alias` (top level, item run); all others after a non-item statement
#eval count ([Stmts2.nil, ofList [.alias xi], ofList [.qubit none, .alias (.prim (.idIdx ix1)), .brk]])
def isLetS : Stmt2 → Bool
  | .letS _ => true
  | _ => false
-- (`let` in the item run is an alias declaration: `WFTop` excludes `letS` there — the two `letS` programs are mis-parsed as expected)
#eval count ((flat.filter fun s => !isLetS s).map fun s => ofList [s])
#eval showBad ((flat.filter fun s => !isLetS s).map fun s => ofList [s])
#eval count ((flat.filter isLetS).map fun s => ofList [s])   -- expected: all fail
#eval count (flat.map fun s => ofList [.exprS xi, s])
#eval showBad (flat.map fun s => ofList [.exprS xi, s])

def bodies : List Body :=
  [.blk .nil, .blk (ofList [.brk]), .blk (ofList [.exprS xi, .assign none xn]), .one .brk, .one (.exprS (.prim (.call .id .nil))),
   .one (.gate .nil qs2), .one (.assign (some ix1) xn), .one (.letS xi), .blk (ofList [.letS xn, .gate (xl [xi]) qs1]),
   .one (.whileS xi (.one .cont)), .one (.ifElse xi (.one .brk) (.one .cont))]
def iters : List Iter := [.range2 xn xi, .range3 xn xn xi, .set it1, .set it2, .ex xi, .ex (.prim (.idIdx ix1))]
def isBlk : Body → Bool
  | .blk _ => true
  | _ => false
def nested1 : List Stmt2 :=
  bodies.flatMap fun b =>
    [Stmt2.ifS (.bin .lt xi xn) b, .ifElse xi b (.blk (ofList [.cont])), .ifElse xi (.blk (ofList [.reset .id])) b,
     .ifElse xi (.one .brk) b, .whileS xi b, .ifElse xi (.blk .nil) (.one (.ifS xn b)),
     .ifElse xi (.blk .nil) (.one (.ifElse xn b (.one (.ifElse xi (.blk .nil) b))))] ++
    (iters.filter (fun it => match it with | .ex _ => isBlk b | _ => true)).flatMap fun it => [Stmt2.forS .int none it b, .forS .uint (some xn) it b]
def cases0 : List Cases :=
  [.dflt .nil, .cons it1 .nil .nil, .cons it1 (ofList [.brk]) (.dflt (ofList [.cont, .exprS xi])),
   .cons (.cons (.ex xn) (.one (.ex xi))) (ofList [.gate .nil qs1]) (.cons it1 .nil (.cons it1 (ofList [.letS xi]) .nil))]
def nested2 : List Stmt2 :=
  cases0.map (Stmt2.switchS xi) ++
  [.block .nil, .block (ofList [.brk, .exprS xi]), .block (ofList [.block .nil, .brk]),
   .gateDef none 1 (ofList [.modGate .inv [] .nil qs1, .gphase (.prim (.paren xi))]),
   .defS [.cls .int] (some .int) (ofList [.ifS xi (.one (.ret (some xn))), .ret (some xi)]),
   .whileS xi (.blk (ofList [.switchS xn (.cons it1 (ofList [.block .nil, .brk]) .nil)]))]

#eval count (nested1.map fun s => ofList [s])
#eval showBad (nested1.map fun s => ofList [s])
mutual
def endsAsg : Stmt2 → Bool
  | .assign _ _ => true
  | .ifS _ b => endsAsgB b
  | .ifElse _ _ b => endsAsgB b
  | .whileS _ b => endsAsgB b
  | .forS _ _ _ b => endsAsgB b
  | _ => false
def endsAsgB : Body → Bool
  | .blk _ => false
  | .one s => endsAsg s
end
-- F09e through brace-less bodies: a statement that ENDS with an assignment is not followed by `-x;` (`WFL2`)
#eval count ((nested1.filter fun s => !endsAsg s).map fun s => ofList [.exprS xi, s, .exprS (.pre .minus xi)])
#eval showBad ((nested1.filter fun s => !endsAsg s).map fun s => ofList [.exprS xi, s, .exprS (.pre .minus xi)])
#eval count ((nested1.filter endsAsg).map fun s => ofList [.exprS xi, s, .exprS (.pre .minus xi)])   -- expected: all fail (F09e)
#eval count (nested2.map fun s => ofList [s])
#eval showBad (nested2.map fun s => ofList [s])
#eval count (nested2.map fun s => ofList [.decl false .int none none, s, .gate .nil qs1])
#eval showBad (nested2.map fun s => ofList [.decl false .int none none, s, .gate .nil qs1])
