/-
Validation of the event encoding of Oq3/Lemmas/PrattEv.lean against the grammar model, by
evaluation: for ALL canonical trees up to a nesting depth the run of `Oq3.Grammar.exprBp` is
compared with the statement of `Oq3.Props.C05Events.exprBp_roundtrip` (events, position, returned
marker, bookkeeping fields) and `process (evs t)` with `nodes t`.  Prints (#trees, #failures).

  cd /verif/lean && lake env lean ../tools/prattev_validate.lean
-/
import Oq3.Lemmas.PrattEv
open Oq3.Gen Oq3.Parser Oq3.Grammar Oq3.PrattEv

def allBin : List BinOp := [.pipe2, .amp2, .pipe, .caret, .amp, .eq2, .neq, .lt, .lteq, .gt, .gteq, .shl, .shr, .plus, .minus, .star, .slash, .percent, .dstar]
def allPre : List PreOp := [.tilde, .bang, .minus]

/-- Bool version of `CanonE` -/
def canonB : Nat → E → Bool
  | _, .id | _, .int => true
  | _, .paren e => canonB 1 e
  | _, .pre _ e => canonB 255 e
  | bp, .bin o l r => decide (bp ≤ o.pow) && canonB (o.pow + 1) r &&
      (match l with
       | .bin o' _ _ => decide (o.pow < o'.pow + 1) && canonB bp l
       | _ => canonB bp l)

def trees (ops : List BinOp) : Nat → List E
  | 0 => [.id, .int]
  | n+1 =>
    let ts := trees ops n
    ts ++ (ts.map .paren) ++ (allPre.flatMap fun o => ts.map (.pre o)) ++
      (ops.flatMap fun o => ts.flatMap fun l => ts.map fun r => .bin o l r)

def check (bp : Nat) (t : E) (follow : List (SyntaxKind × Bool)) : Bool :=
  let tk := toks t ++ follow
  let pre : Array Ev := #[.finish, .finish]
  let s : P := { kinds := (tk.map (·.1)).toArray, joint := (tk.map (·.2)).toArray, events := pre, live := 3, steps := 5, sinceBump := 7, protectedPos := [1] }
  match exprBp (6 * size t) none { preferStmt := false } bp s with
  | .ok (some (cm, .notBlock), s') =>
    s'.events.toList == pre.toList ++ evs t && s'.pos == (toks t).length && cm == ⟨2 + (rootOff t + 1), t.kind⟩
      && s'.live == 3 && s'.steps == 0 && s'.sinceBump == sbOf t && s'.protectedPos == [1]
      && (evs t).length == len t
      && process (evs t) == some (nodes t)
  | _ => false

def countBad (bp : Nat) (ts : List E) (follow : List (SyntaxKind × Bool)) : Nat × Nat :=
  let cs := ts.filter (canonB bp)
  (cs.length, (cs.filter fun t => !check bp t follow).length)

#eval countBad 1 (trees allBin 1) [(.SEMICOLON, false)]
#eval countBad 1 (trees [.plus, .shl, .dstar] 2) [(.SEMICOLON, false)]
#eval countBad 10 (trees [.plus, .star, .neq] 2) [(.PLUS, true), (.EQ, false)]   -- `+=` has power 1 < 10
#eval countBad 11 (trees [.plus, .star, .neq] 2) [(.PLUS, false), (.IDENT, false)]   -- `+` has power 10 < 11
#eval countBad 1 (trees [.plus, .star] 2) [(.R_PAREN, false)]
#eval countBad 1 (trees [.minus, .lteq] 2) []   -- end of input
