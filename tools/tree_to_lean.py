#!/usr/bin/env python3
"""Print Lean witnesses from the REAL parser for Oq3/Props/C05Roles.lean (section `W`):

  def BASEFile : CNode          the whole tree of the source text (`oq3-run tree`, field `tree=`)
  example : Dump.program BASEFile = "<the real `oq3-run ast` line>" := by decide +kernel
  def NAME : CNode              the subtree at a child path      } for every NAME=i.j.k
  example : BASEFile.sub [i, j, k] = some NAME := by decide      }

usage: tree_to_lean.py BASE 'source text' [NAME=i.j.k ...]
   i.j.k = child indices from the root (nodes and tokens counted), e.g. `0` = first child of
   SOURCE_FILE.
"""
import os
import subprocess
import sys

ROOT = os.path.dirname(os.path.dirname(os.path.abspath(__file__)))
sys.path.insert(0, ROOT)
from vf import sexp  # noqa: E402

RUNNER = os.path.join(ROOT, "harness", "target", "debug", "oq3-run")


def lean_char(c):
    if c == "'":
        return "'\\''"
    if c == "\\":
        return "'\\\\'"
    if c == "\n":
        return "'\\n'"
    if c == "\t":
        return "'\\t'"
    if c == "\r":
        return "'\\r'"
    if ord(c) < 32 or ord(c) == 127:
        return f"(Char.ofNat {ord(c)})"
    return f"'{c}'"


def term(x, ind):
    pad = "  " * ind
    if sexp.is_node(x):
        kids = x[3:]
        if not kids:
            return f"{pad}.node .{x[0]} {x[1]} {x[2]} []"
        inner = ",\n".join(term(k, ind + 1) for k in kids)
        return f"{pad}.node .{x[0]} {x[1]} {x[2]} [\n{inner}]"
    k, s, e, h = x.split(":", 3)
    txt = sexp.unhex(h)
    return f"{pad}.token .{k} {s} {e} [" + ", ".join(lean_char(c) for c in txt) + "]"


def main():
    name, src = sys.argv[1], sys.argv[2]
    subs = [(a.split("=")[0], [int(p) for p in a.split("=")[1].split(".")]) for a in sys.argv[3:]]
    line = ".".join("%x" % ord(c) for c in src)
    out = subprocess.run([RUNNER, "tree"], input=line + "\n", capture_output=True, text=True).stdout.strip()
    fields = dict(kv.split("=", 1) for kv in out.split(";") if "=" in kv)
    ast = subprocess.run([RUNNER, "ast"], input=line + "\n", capture_output=True, text=True).stdout.strip()
    root = sexp.parse(fields["tree"])
    esc = src.replace("\n", "\\n")
    print(f"/-- `{esc}` (real `oq3-run tree` output; errors=`{fields.get('clerrors', '')}`) -/")
    print(f"def {name}File : CNode :=")
    print(term(root, 1))
    if ast.startswith("(Program"):
        print(f"/-- the model's dump of that tree is, character for character, the real `oq3-run ast` line -/")
        print(f"example : Dump.program {name}File =\n    \"{ast}\" := by\n  decide +kernel")
    for sub, path in subs:
        t = root
        for p in path:
            t = t[3:][p]
        print(f"/-- the `{t[0]}` node of `{esc}` -/")
        print(f"def {sub} : CNode :=")
        print(term(t, 1))
        print(f"example : {name}File.sub {path} = some {sub} := by decide")


if __name__ == "__main__":
    main()
