#!/usr/bin/env python3
"""Writes the STATEMENTS of the acceptance lemmas of Oq3/Props/C04.lean (section "generated
statements") for a fixed list of statement shapes.  For each shape the expected event list is
obtained by running the grammar model once on the closed token sequence (`lake env lean`); the
lemma then claims that list for an ARBITRARY start state and continuation, and Lean proves it with
the symbolic evaluator `sym_eval` (Oq3/Lemmas/SymTactic.lean).  A wrong expectation cannot be
proved, so this script is not trusted.

usage: gen_c04_accept.py [lean project dir]   (default: ../lean relative to this file)
"""
import os, re, subprocess, sys

here = os.path.dirname(os.path.abspath(__file__))
lean = sys.argv[1] if len(sys.argv) > 1 else os.path.join(os.path.dirname(here), "lean")

SCALARS = ["INT_TY", "UINT_TY", "FLOAT_TY", "ANGLE_TY", "BIT_TY", "BOOL_TY", "DURATION_TY", "STRETCH_TY"]
T = lambda s: s.split()

# name, doc, tokens, follow   (follow: None | "else" | "op")
SHAPES = [
    ("empty", "`;`", T("SEMICOLON"), None),
    ("break", "`break;`", T("BREAK_KW SEMICOLON"), None),
    ("continue", "`continue;`", T("CONTINUE_KW SEMICOLON"), None),
    ("end", "`end;`", T("END_KW SEMICOLON"), None),
    ("include", '`include "f";`', T("INCLUDE_KW STRING SEMICOLON"), None),
    ("pragma", "`pragma …`", T("PRAGMA"), None),
    ("annotation", "`@ann …`", T("ANNOTATION"), None),
    ("qubit", "`qubit q;`", T("QUBIT_KW IDENT SEMICOLON"), None),
    ("qubit_width", "`qubit[n] q;` (`n` an integer literal)", T("QUBIT_KW L_BRACK INT_NUMBER R_BRACK IDENT SEMICOLON"), None),
    ("qubit_width_ident", "`qubit[n] q;` (`n` an identifier)", T("QUBIT_KW L_BRACK IDENT R_BRACK IDENT SEMICOLON"), None),
    ("qreg", "`qreg q[n];`", T("QREG_KW IDENT L_BRACK INT_NUMBER R_BRACK SEMICOLON"), None),
    ("creg", "`creg c[n];`", T("CREG_KW IDENT L_BRACK INT_NUMBER R_BRACK SEMICOLON"), None),
]
for ty in SCALARS:
    n = ty[:-3].lower()
    SHAPES.append((f"decl_{n}", f"`{n} x;`", [ty] + T("IDENT SEMICOLON"), None))
SHAPES += [
    ("decl_complex", "`complex z;`", T("COMPLEX_TY IDENT SEMICOLON"), None),
    ("decl_complex_float", "`complex[float[n]] z;`",
     T("COMPLEX_TY L_BRACK FLOAT_TY L_BRACK INT_NUMBER R_BRACK R_BRACK IDENT SEMICOLON"), None),
    ("decl_int_width", "`int[n] x;`", T("INT_TY L_BRACK INT_NUMBER R_BRACK IDENT SEMICOLON"), None),
    ("decl_int_init_ident", "`int x = y;`", T("INT_TY IDENT EQ IDENT SEMICOLON"), None),
    ("decl_int_init_lit", "`int x = 3;`", T("INT_TY IDENT EQ INT_NUMBER SEMICOLON"), None),
    ("decl_int_width_init", "`int[n] x = 3;`", T("INT_TY L_BRACK INT_NUMBER R_BRACK IDENT EQ INT_NUMBER SEMICOLON"), None),
    ("decl_float_init", "`float x = 2.5;`", T("FLOAT_TY IDENT EQ FLOAT_NUMBER SEMICOLON"), None),
    ("decl_bit_init_measure", "`bit c = measure q;`", T("BIT_TY IDENT EQ MEASURE_KW IDENT SEMICOLON"), None),
    ("decl_bool_init_true", "`bool b = true;`", T("BOOL_TY IDENT EQ TRUE_KW SEMICOLON"), None),
    ("const_int", "`const int n = 3;`", T("CONST_KW INT_TY IDENT EQ INT_NUMBER SEMICOLON"), None),
    ("const_int_width", "`const int[n] m = 3;`",
     T("CONST_KW INT_TY L_BRACK INT_NUMBER R_BRACK IDENT EQ INT_NUMBER SEMICOLON"), None),
    ("decl_int_init_sum", "`int x = a + b;` (a binary initializer IS accepted in a declaration)",
     T("INT_TY IDENT EQ IDENT PLUS IDENT SEMICOLON"), None),
    ("input", "`input int x;`", T("INPUT_KW INT_TY IDENT SEMICOLON"), None),
    ("output", "`output bit c;`", T("OUTPUT_KW BIT_TY IDENT SEMICOLON"), None),
    ("reset", "`reset q;`", T("RESET_KW IDENT SEMICOLON"), None),
    ("reset_indexed", "`reset q[0];`", T("RESET_KW IDENT L_BRACK INT_NUMBER R_BRACK SEMICOLON"), None),
    ("reset_hw", "`reset $0;`", T("RESET_KW HARDWAREIDENT SEMICOLON"), None),
    ("barrier", "`barrier q;`", T("BARRIER_KW IDENT SEMICOLON"), None),
    ("barrier_two", "`barrier q, r;`", T("BARRIER_KW IDENT COMMA IDENT SEMICOLON"), None),
    ("barrier_none", "`barrier;`", T("BARRIER_KW SEMICOLON"), None),
    ("delay", "`delay[n] q;`", T("DELAY_KW L_BRACK INT_NUMBER R_BRACK IDENT SEMICOLON"), None),
    ("delay_timing", "`delay[10ns] q;` (timing literal = number + identifier)",
     T("DELAY_KW L_BRACK INT_NUMBER IDENT R_BRACK IDENT SEMICOLON"), None),
    ("measure", "`measure q;`", T("MEASURE_KW IDENT SEMICOLON"), None),
    ("measure_assign", "`c = measure q;`", T("IDENT EQ MEASURE_KW IDENT SEMICOLON"), "op"),
    ("gate_call", "`g q;`", T("IDENT IDENT SEMICOLON"), None),
    ("gate_call_two", "`cx q, r;`", T("IDENT IDENT COMMA IDENT SEMICOLON"), None),
    ("gate_call_indexed", "`h q[0];`", T("IDENT IDENT L_BRACK INT_NUMBER R_BRACK SEMICOLON"), None),
    ("gate_call_hw", "`h $0;`", T("IDENT HARDWAREIDENT SEMICOLON"), None),
    ("gate_call_param", "`g(a) q;`", T("IDENT L_PAREN IDENT R_PAREN IDENT SEMICOLON"), None),
    ("gate_call_param_lit", "`rx(1.5) q;`", T("IDENT L_PAREN FLOAT_NUMBER R_PAREN IDENT SEMICOLON"), None),
    ("gate_call_inv", "`inv @ g q;`", T("INV_KW AT IDENT IDENT SEMICOLON"), None),
    ("gate_call_ctrl", "`ctrl @ g q, r;`", T("CTRL_KW AT IDENT IDENT COMMA IDENT SEMICOLON"), None),
    ("gate_call_negctrl_n", "`negctrl(2) @ g q, r;`",
     T("NEGCTRL_KW L_PAREN INT_NUMBER R_PAREN AT IDENT IDENT COMMA IDENT SEMICOLON"), None),
    ("gate_call_pow", "`pow(2) @ g q;`", T("POW_KW L_PAREN INT_NUMBER R_PAREN AT IDENT IDENT SEMICOLON"), None),
    ("gphase", "`gphase(a);`", T("GPHASE_KW L_PAREN IDENT R_PAREN SEMICOLON"), None),
    ("call", "`f(a);`", T("IDENT L_PAREN IDENT R_PAREN SEMICOLON"), None),
    ("call_none", "`f();`", T("IDENT L_PAREN R_PAREN SEMICOLON"), None),
    ("assign_ident", "`x = y;`", T("IDENT EQ IDENT SEMICOLON"), "op"),
    ("assign_lit", "`x = 3;`", T("IDENT EQ INT_NUMBER SEMICOLON"), "op"),
    ("assign_paren_sum", "`x = (a + b);`", T("IDENT EQ L_PAREN IDENT PLUS IDENT R_PAREN SEMICOLON"), "op"),
    ("assign_indexed", "`x[0] = y;`", T("IDENT L_BRACK INT_NUMBER R_BRACK EQ IDENT SEMICOLON"), "op"),
    ("assign_cast", "`x = int(y);`", T("IDENT EQ INT_TY L_PAREN IDENT R_PAREN SEMICOLON"), "op"),
    ("assign_call", "`x = f(y);`", T("IDENT EQ IDENT L_PAREN IDENT R_PAREN SEMICOLON"), "op"),
    ("assign_neg", "`x = -y;`", T("IDENT EQ MINUS IDENT SEMICOLON"), "op"),
    ("assign_not", "`x = !y;`", T("IDENT EQ BANG IDENT SEMICOLON"), "op"),
    ("assign_tilde", "`x = ~y;` (rejected before `~` was added to `LHS_FIRST`)", T("IDENT EQ TILDE IDENT SEMICOLON"), "op"),
    ("assign_index_rhs", "`x = a[0];`", T("IDENT EQ IDENT L_BRACK INT_NUMBER R_BRACK SEMICOLON"), "op"),
    ("assign_range_rhs", "`x = a[0:1];`", T("IDENT EQ IDENT L_BRACK INT_NUMBER COLON INT_NUMBER R_BRACK SEMICOLON"), "op"),
    ("expr_stmt_sum", "`a + b;`", T("IDENT PLUS IDENT SEMICOLON"), None),
    ("expr_stmt_prod_sum", "`a * b + c;`", T("IDENT STAR IDENT PLUS IDENT SEMICOLON"), None),
    ("let", "`let a = q;` (as parsed by `stmt`: LET_STMT)", T("LET_KW IDENT EQ IDENT SEMICOLON"), None),
    ("return", "`return x;`", T("RETURN_KW IDENT SEMICOLON"), None),
    ("return_none", "`return;`", T("RETURN_KW SEMICOLON"), None),
    ("if_block", "`if (c) { }`", T("IF_KW L_PAREN IDENT R_PAREN L_CURLY R_CURLY"), "else"),
    ("if_stmt", "`if (c) x = y;`", T("IF_KW L_PAREN IDENT R_PAREN IDENT EQ IDENT SEMICOLON"), "opelse"),
    ("if_else_block", "`if (c) { } else { }`",
     T("IF_KW L_PAREN IDENT R_PAREN L_CURLY R_CURLY ELSE_KW L_CURLY R_CURLY"), None),
    ("if_gate", "`if (c) h q;`", T("IF_KW L_PAREN IDENT R_PAREN IDENT IDENT SEMICOLON"), "else"),
    ("if_else_gate", "`if (c) h q; else x q;`",
     T("IF_KW L_PAREN IDENT R_PAREN IDENT IDENT SEMICOLON ELSE_KW IDENT IDENT SEMICOLON"), None),
    ("if_eq", "`if (a == b) { }` (`==` is two joint `=` tokens; here as unjoint kinds it is not an operator)",
     None, None),
    ("while_block", "`while (c) { }`", T("WHILE_KW L_PAREN IDENT R_PAREN L_CURLY R_CURLY"), None),
    ("while_break", "`while (c) break;`", T("WHILE_KW L_PAREN IDENT R_PAREN BREAK_KW SEMICOLON"), None),
    ("while_body", "`while (c) { x = y; }`",
     T("WHILE_KW L_PAREN IDENT R_PAREN L_CURLY IDENT EQ IDENT SEMICOLON R_CURLY"), None),
    ("for_range", "`for int i in [0:3] { }`",
     T("FOR_KW INT_TY IDENT IN_KW L_BRACK INT_NUMBER COLON INT_NUMBER R_BRACK L_CURLY R_CURLY"), None),
    ("for_set", "`for int i in {1, 2} { }`",
     T("FOR_KW INT_TY IDENT IN_KW L_CURLY INT_NUMBER COMMA INT_NUMBER R_CURLY L_CURLY R_CURLY"), None),
    ("for_ident", "`for int i in a { }`", T("FOR_KW INT_TY IDENT IN_KW IDENT L_CURLY R_CURLY"), None),
    ("switch", "`switch (x) { case 1 { } default { } }`",
     T("SWITCH_KW L_PAREN IDENT R_PAREN L_CURLY CASE_KW INT_NUMBER L_CURLY R_CURLY DEFAULT_KW L_CURLY R_CURLY R_CURLY"), None),
    ("gate_def", "`gate g q { }`", T("GATE_KW IDENT IDENT L_CURLY R_CURLY"), None),
    ("gate_def_params", "`gate g(a) q, r { }`",
     T("GATE_KW IDENT L_PAREN IDENT R_PAREN IDENT COMMA IDENT L_CURLY R_CURLY"), None),
    ("gate_def_body", "`gate g q { h q; }`", T("GATE_KW IDENT IDENT L_CURLY IDENT IDENT SEMICOLON R_CURLY"), None),
    ("def_empty", "`def f() { }`", T("DEF_KW IDENT L_PAREN R_PAREN L_CURLY R_CURLY"), None),
    ("def_param", "`def f(int x) { }`", T("DEF_KW IDENT L_PAREN INT_TY IDENT R_PAREN L_CURLY R_CURLY"), None),
    ("def_qubit_param", "`def f(qubit q) { }`", T("DEF_KW IDENT L_PAREN QUBIT_KW IDENT R_PAREN L_CURLY R_CURLY"), None),
    ("block", "`{ }`", T("L_CURLY R_CURLY"), "rcurly"),
]
SHAPES = [x for x in SHAPES if x[2] is not None]


def run_model(shapes):
    body = '''import Oq3.Model.Grammar
open Oq3.Gen Oq3.Parser Oq3.Grammar
def showEv : Ev → String
  | .start k fp => s!".start .{k.name} {match fp with | none => "none" | some n => s!"(some {n})"}"
  | .finish => ".finish"
  | .token k n => s!".token .{k.name} {n}"
  | .error m => s!".error {repr m}"
def showRun (ks : List SyntaxKind) : String :=
  match (stmt 200).run { kinds := ks.toArray, joint := (ks.map fun _ => false).toArray } with
  | .ok (_, s) => s!"OK pos={s.pos} live={s.live} ev=[{", ".intercalate (s.events.toList.map showEv)}]"
  | .error e => s!"ERR {repr e}"
'''
    for name, doc, toks, follow in shapes:
        body += f'#eval IO.println ("{name} " ++ showRun [{", ".join("." + t for t in toks)}])\n'
    path = "/tmp/gen_c04_accept_eval.lean"
    open(path, "w").write(body)
    out = subprocess.run(["lake", "env", "lean", path], cwd=lean, stdout=subprocess.PIPE, stderr=subprocess.STDOUT,
                         text=True).stdout
    res = {}
    for line in out.splitlines():
        m = re.match(r"(\w+) OK pos=(\d+) live=(\d+) ev=\[(.*)\]$", line)
        if m:
            res[m.group(1)] = (int(m.group(2)), int(m.group(3)), m.group(4))
        elif line.strip():
            print("model:", line, file=sys.stderr)
    return res


def main():
    res = run_model(SHAPES)
    o = []
    for name, doc, toks, follow in SHAPES:
        if name not in res:
            print("no result for", name, file=sys.stderr)
            continue
        pos, live, ev = res[name]
        assert pos == len(toks) and live == 0, (name, pos, live)
        assert ".error" not in ev, (name, ev)
        n = len(toks)
        hyps = " ".join(f"(h{i} : s.kindAt (s.pos + {i}) = .{t})" for i, t in enumerate(toks))
        args = ", ".join(f"h{i}" for i in range(n))
        extra = ""
        if follow in ("else", "opelse"):
            extra += f" (k : SyntaxKind) (hk : s.kindAt (s.pos + {n}) = k) (hf : (k == .ELSE_KW) = false)"
            args += ", hk, hf"
        if follow == "rcurly":
            extra += (f" (k : SyntaxKind) (hk : s.kindAt (s.pos + {n}) = k) (hf : (k == .R_CURLY) = false)"
                      " (hf2 : k ≠ .SEMICOLON)")
            args += ", hk, hf, hf2, beq_eq_false_iff_ne.mpr hf2"
        if follow == "op":
            extra += f" (k : SyntaxKind) (hk : s.kindAt (s.pos + {n}) = k) (hf : opFirst k = false)"
            args += f", currentOp_follow s k {n} hk hf"
        if follow == "opelse":
            extra += f" (hf2 : opFirst k = false)"
            args += f", currentOp_follow s k {n} hk hf2"
        evs = ev.replace("\\\"", '"')
        # wrap the event list
        items = evs.split(", ")
        lines, cur = [], "      "
        for it in items:
            if len(cur) + len(it) > 98:
                lines.append(cur.rstrip())
                cur = "       "
            cur += it + ", "
        lines.append(cur.rstrip().rstrip(","))
        evtxt = "\n".join(lines).strip()
        o.append(f"/-- {doc} -/")
        o.append(f"theorem accept_{name} (fuel : Nat) (s : P) (hr : Ready s)")
        o.append(f"    {hyps}{extra} :")
        o.append(f"    Accepts (stmt (fuel + 40)) s {n}")
        o.append(f"      [{evtxt}] := by")
        o.append(f"  accept [{args}]")
        o.append("")
    print("\n".join(o))


main()
