#!/usr/bin/env python3
"""Validation of the reference language of Oq3/Props/C04Lang.lean against the compiled model
driver: random well-formed programs (nested blocks, expressions of random depth) are printed as
token-kind lines, parsed by `driver parse`, and the step list is compared with the pre-order node
sequence `nodesP` of the Lean development (mirrored here); also checks that no error step appears.

usage: langev_validate.py [N] [seed]     (driver: $OQ3_DRIVER or /verif/lean/.lake/build/bin/driver)"""
import random, subprocess, sys, os

BIN = {
    'pipe2': ('PIPE2', ['PIPE', 'PIPE'], 3), 'amp2': ('AMP2', ['AMP', 'AMP'], 4), 'pipe': ('PIPE', ['PIPE'], 6),
    'caret': ('CARET', ['CARET'], 7), 'amp': ('AMP', ['AMP'], 8), 'eq2': ('EQ2', ['EQ', 'EQ'], 5),
    'neq': ('NEQ', ['BANG', 'EQ'], 5), 'lt': ('L_ANGLE', ['L_ANGLE'], 5), 'lteq': ('LTEQ', ['L_ANGLE', 'EQ'], 5),
    'gt': ('R_ANGLE', ['R_ANGLE'], 5), 'gteq': ('GTEQ', ['R_ANGLE', 'EQ'], 5),
    'shl': ('SHL', ['L_ANGLE', 'L_ANGLE'], 9), 'shr': ('SHR', ['R_ANGLE', 'R_ANGLE'], 9),
    'plus': ('PLUS', ['PLUS'], 10), 'minus': ('MINUS', ['MINUS'], 10), 'star': ('STAR', ['STAR'], 11),
    'slash': ('SLASH', ['SLASH'], 11), 'percent': ('PERCENT', ['PERCENT'], 11), 'dstar': ('DOUBLE_STAR', ['STAR', 'STAR'], 7)}
PRE = {'tilde': 'TILDE', 'bang': 'BANG', 'minus': 'MINUS'}
TY = {'int': 'INT_TY', 'uint': 'UINT_TY', 'float': 'FLOAT_TY', 'angle': 'ANGLE_TY', 'bit': 'BIT_TY', 'bool': 'BOOL_TY'}

def rand_tree(rng, depth):
    if depth == 0 or rng.random() < 0.25:
        return (rng.choice(['id', 'int']),)
    c = rng.random()
    if c < 0.6:
        return ('bin', rng.choice(list(BIN)), rand_tree(rng, depth - 1), rand_tree(rng, depth - 1))
    if c < 0.8:
        return ('pre', rng.choice(list(PRE)), rand_tree(rng, depth - 1))
    return ('paren', rand_tree(rng, depth - 1))

def canon(t, bp):
    if t[0] in ('id', 'int'): return t
    if t[0] == 'paren': return ('paren', canon(t[1], 1))
    if t[0] == 'pre': return ('pre', t[1], canon(t[2], 255))
    _, o, l, r = t
    p = BIN[o][2]
    if bp > p: return ('paren', canon(t, 1))
    r2 = canon(r, p + 1)
    l2 = ('paren', canon(l, 1)) if l[0] == 'bin' and not (p < BIN[l[1]][2] + 1) else canon(l, bp)
    return ('bin', o, l2, r2)

def etoks(t):
    if t[0] == 'id': return ['IDENT']
    if t[0] == 'int': return ['INT_NUMBER']
    if t[0] == 'paren': return ['L_PAREN'] + etoks(t[1]) + ['R_PAREN']
    if t[0] == 'pre': return [PRE[t[1]]] + etoks(t[2])
    ps = BIN[t[1]][1]
    return etoks(t[2]) + [k + '+' for k in ps[:-1]] + [ps[-1]] + etoks(t[3])

def enodes(t):
    if t[0] == 'id': return ['E:IDENTIFIER', 'T:IDENT:1', 'X']
    if t[0] == 'int': return ['E:LITERAL', 'T:INT_NUMBER:1', 'X']
    if t[0] == 'paren': return ['E:PAREN_EXPR', 'T:L_PAREN:1'] + enodes(t[1]) + ['T:R_PAREN:1', 'X']
    if t[0] == 'pre': return ['E:PREFIX_EXPR', f'T:{PRE[t[1]]}:1'] + enodes(t[2]) + ['X']
    k, ps, _ = BIN[t[1]]
    return ['E:BIN_EXPR'] + enodes(t[2]) + [f'T:{k}:{len(ps)}'] + enodes(t[3]) + ['X']

def expr(rng, bp=1):
    return canon(rand_tree(rng, rng.randint(0, 4)), bp)

def rand_stmt(rng, depth):
    kinds = ['decl', 'assign', 'expr', 'gate', 'measure', 'assignMeasure', 'reset', 'barrier', 'brk', 'cont', 'end', 'ret']
    if depth > 0: kinds += ['if', 'ifelse', 'while', 'for', 'gatedef', 'def'] * 2
    k = rng.choice(kinds)
    if k == 'decl':
        ty = rng.choice(list(TY))
        w = expr(rng) if ty != 'bool' and rng.random() < 0.5 else None
        return ('decl', ty, w, expr(rng) if rng.random() < 0.5 else None)
    if k == 'assign': return ('assign', expr(rng, 12))
    if k == 'expr': return ('expr', expr(rng))
    if k == 'gate': return ('gate', [expr(rng) for _ in range(rng.randint(0, 3))], rng.randint(0, 3))
    if k == 'barrier': return ('barrier', rng.randint(0, 3))
    if k == 'if': return ('if', expr(rng), rand_block(rng, depth - 1))
    if k == 'ifelse': return ('ifelse', expr(rng), rand_block(rng, depth - 1), rand_block(rng, depth - 1))
    if k == 'while': return ('while', expr(rng), rand_block(rng, depth - 1))
    if k == 'for': return ('for', rng.choice(list(TY)), expr(rng), expr(rng), rand_block(rng, depth - 1))
    if k == 'gatedef': return ('gatedef', rng.choice([None, 0, 1, 2]), rng.randint(0, 2), rand_block(rng, depth - 1))
    if k == 'def':
        return ('def', [rng.choice(list(TY) + ['qubit']) for _ in range(rng.randint(0, 3))],
                rng.choice([None] + list(TY)), rand_block(rng, depth - 1))
    if k == 'ret': return ('ret', expr(rng) if rng.random() < 0.6 else None)
    return (k,)

def starts_minus(st):
    return st[0] == 'expr' and etoks(st[1])[0] == 'MINUS'

def rand_block(rng, depth):
    out = []
    for _ in range(rng.randint(0, 4)):
        st = rand_stmt(rng, depth)
        # WF (F09e): an assignment is not followed by a statement that starts with `-`
        while out and out[-1][0] in ('assign', 'assignMeasure') and starts_minus(st):
            st = rand_stmt(rng, depth)
        out.append(st)
    return out

PK = dict(TY, qubit='QUBIT_KW')
def ptoks(n): return ['IDENT'] + ['COMMA', 'IDENT'] * n
def pnodes(n): return ['E:PARAM', 'T:IDENT:1', 'X'] + ['T:COMMA:1', 'E:PARAM', 'T:IDENT:1', 'X'] * n
def qtoks(n): return ['IDENT'] + ['COMMA', 'IDENT'] * n
def qnodes(n): return ['E:IDENTIFIER', 'T:IDENT:1', 'X'] + ['T:COMMA:1', 'E:IDENTIFIER', 'T:IDENT:1', 'X'] * n
def tytoks(ty, w): return [TY[ty]] + (['L_BRACK'] + etoks(w) + ['R_BRACK'] if w else [])
def tynodes(ty, w):
    return ['E:SCALAR_TYPE', f'T:{TY[ty]}:1'] + (['E:DESIGNATOR', 'T:L_BRACK:1'] + enodes(w) + ['T:R_BRACK:1', 'X'] if w else []) + ['X']
def btoks(b): return ['L_CURLY'] + [t for s in b for t in stoks(s)] + ['R_CURLY']
def bnodes(b): return ['E:BLOCK_EXPR', 'T:L_CURLY:1'] + [t for s in b for t in snodes(s)] + ['T:R_CURLY:1', 'X']
def sep(xs, f, s):
    out = []
    for i, x in enumerate(xs):
        if i: out.append(s)
        out += f(x)
    return out

def stoks(s):
    k = s[0]
    if k == 'decl': return tytoks(s[1], s[2]) + ['IDENT'] + (['EQ'] + etoks(s[3]) if s[3] else []) + ['SEMICOLON']
    if k == 'assign': return ['IDENT', 'EQ'] + etoks(s[1]) + ['SEMICOLON']
    if k == 'expr': return etoks(s[1]) + ['SEMICOLON']
    if k == 'gate': return ['IDENT'] + (['L_PAREN'] + sep(s[1], etoks, 'COMMA') + ['R_PAREN'] if s[1] else []) + qtoks(s[2]) + ['SEMICOLON']
    if k == 'measure': return ['MEASURE_KW', 'IDENT', 'SEMICOLON']
    if k == 'assignMeasure': return ['IDENT', 'EQ', 'MEASURE_KW', 'IDENT', 'SEMICOLON']
    if k == 'reset': return ['RESET_KW', 'IDENT', 'SEMICOLON']
    if k == 'barrier': return ['BARRIER_KW'] + qtoks(s[1]) + ['SEMICOLON']
    if k == 'brk': return ['BREAK_KW', 'SEMICOLON']
    if k == 'cont': return ['CONTINUE_KW', 'SEMICOLON']
    if k == 'end': return ['END_KW', 'SEMICOLON']
    if k == 'if': return ['IF_KW', 'L_PAREN'] + etoks(s[1]) + ['R_PAREN'] + btoks(s[2])
    if k == 'ifelse': return ['IF_KW', 'L_PAREN'] + etoks(s[1]) + ['R_PAREN'] + btoks(s[2]) + ['ELSE_KW'] + btoks(s[3])
    if k == 'while': return ['WHILE_KW', 'L_PAREN'] + etoks(s[1]) + ['R_PAREN'] + btoks(s[2])
    if k == 'for': return ['FOR_KW', TY[s[1]], 'IDENT', 'IN_KW', 'L_BRACK'] + etoks(s[2]) + ['COLON'] + etoks(s[3]) + ['R_BRACK'] + btoks(s[4])
    if k == 'gatedef':
        return ['GATE_KW', 'IDENT'] + (['L_PAREN'] + ptoks(s[1]) + ['R_PAREN'] if s[1] is not None else []) + ptoks(s[2]) + btoks(s[3])
    if k == 'def':
        return ['DEF_KW', 'IDENT', 'L_PAREN'] + sep(s[1], lambda p: [PK[p], 'IDENT'], 'COMMA') + ['R_PAREN'] + \
            (['MINUS+', 'R_ANGLE', TY[s[2]]] if s[2] else []) + btoks(s[3])
    if k == 'ret': return ['RETURN_KW'] + (etoks(s[1]) if s[1] else []) + ['SEMICOLON']

def snodes(s):
    k = s[0]
    semi = ['T:SEMICOLON:1', 'X']
    if k == 'decl':
        return ['E:CLASSICAL_DECLARATION_STATEMENT'] + tynodes(s[1], s[2]) + ['E:NAME', 'T:IDENT:1', 'X'] + \
            (['T:EQ:1'] + enodes(s[3]) if s[3] else []) + semi
    if k == 'assign': return ['E:ASSIGNMENT_STMT', 'E:IDENTIFIER', 'T:IDENT:1', 'X', 'T:EQ:1'] + enodes(s[1]) + semi
    if k == 'expr': return ['E:EXPR_STMT'] + enodes(s[1]) + semi
    if k == 'gate':
        args = ['E:ARG_LIST', 'E:EXPRESSION_LIST', 'T:L_PAREN:1'] + sep(s[1], enodes, 'T:COMMA:1') + ['T:R_PAREN:1', 'X', 'X'] if s[1] else []
        return ['E:EXPR_STMT', 'E:GATE_CALL_EXPR', 'E:IDENTIFIER', 'T:IDENT:1', 'X'] + args + ['E:QUBIT_LIST'] + qnodes(s[2]) + ['X', 'X'] + semi
    if k == 'measure': return ['E:EXPR_STMT', 'E:MEASURE_EXPRESSION', 'T:MEASURE_KW:1', 'E:IDENTIFIER', 'T:IDENT:1', 'X', 'X'] + semi
    if k == 'assignMeasure':
        return ['E:ASSIGNMENT_STMT', 'E:IDENTIFIER', 'T:IDENT:1', 'X', 'T:EQ:1', 'E:MEASURE_EXPRESSION', 'T:MEASURE_KW:1',
                'E:IDENTIFIER', 'T:IDENT:1', 'X', 'X'] + semi
    if k == 'reset': return ['E:RESET', 'T:RESET_KW:1', 'E:IDENTIFIER', 'T:IDENT:1', 'X'] + semi
    if k == 'barrier': return ['E:BARRIER', 'T:BARRIER_KW:1', 'E:QUBIT_LIST'] + qnodes(s[1]) + ['X'] + semi
    if k == 'brk': return ['E:BREAK_STMT', 'T:BREAK_KW:1'] + semi
    if k == 'cont': return ['E:CONTINUE_STMT', 'T:CONTINUE_KW:1'] + semi
    if k == 'end': return ['E:END_STMT', 'T:END_KW:1'] + semi
    if k == 'if': return ['E:IF_STMT', 'T:IF_KW:1', 'T:L_PAREN:1'] + enodes(s[1]) + ['T:R_PAREN:1'] + bnodes(s[2]) + ['X']
    if k == 'ifelse':
        return ['E:IF_STMT', 'T:IF_KW:1', 'T:L_PAREN:1'] + enodes(s[1]) + ['T:R_PAREN:1'] + bnodes(s[2]) + ['T:ELSE_KW:1'] + bnodes(s[3]) + ['X']
    if k == 'while': return ['E:WHILE_STMT', 'T:WHILE_KW:1', 'T:L_PAREN:1'] + enodes(s[1]) + ['T:R_PAREN:1'] + bnodes(s[2]) + ['X']
    if k == 'gatedef':
        pl = ['E:PARAM_LIST', 'T:L_PAREN:1'] + pnodes(s[1]) + ['T:R_PAREN:1', 'X'] if s[1] is not None else []
        return ['E:GATE', 'T:GATE_KW:1', 'E:NAME', 'T:IDENT:1', 'X'] + pl + ['E:PARAM_LIST'] + pnodes(s[2]) + ['X'] + bnodes(s[3]) + ['X']
    if k == 'def':
        tp = lambda p: ['E:TYPED_PARAM', 'E:SCALAR_TYPE', f'T:{PK[p]}:1', 'X', 'E:NAME', 'T:IDENT:1', 'X', 'X']
        rs = ['E:RETURN_SIGNATURE', 'T:THIN_ARROW:2', 'E:SCALAR_TYPE', f'T:{TY[s[2]]}:1', 'X', 'X'] if s[2] else []
        return ['E:DEF', 'T:DEF_KW:1', 'E:NAME', 'T:IDENT:1', 'X', 'E:TYPED_PARAM_LIST', 'T:L_PAREN:1'] + \
            sep(s[1], tp, 'T:COMMA:1') + ['T:R_PAREN:1', 'X'] + rs + bnodes(s[3]) + ['X']
    if k == 'ret':
        return ['E:EXPR_STMT', 'E:RETURN_EXPR', 'T:RETURN_KW:1'] + (enodes(s[1]) if s[1] else []) + ['X'] + semi
    if k == 'for':
        return ['E:FOR_STMT', 'T:FOR_KW:1', 'E:SCALAR_TYPE', f'T:{TY[s[1]]}:1', 'X', 'E:NAME', 'T:IDENT:1', 'X', 'T:IN_KW:1',
                'E:FOR_ITERABLE', 'E:RANGE_EXPR', 'T:L_BRACK:1'] + enodes(s[2]) + ['T:COLON:1'] + enodes(s[3]) + \
               ['T:R_BRACK:1', 'X', 'X'] + bnodes(s[4]) + ['X']

def main():
    n = int(sys.argv[1]) if len(sys.argv) > 1 else 200
    seed = int(sys.argv[2]) if len(sys.argv) > 2 else 1
    driver = os.environ.get('OQ3_DRIVER', '/verif/lean/.lake/build/bin/driver')
    rng = random.Random(seed)
    progs = [rand_block(rng, rng.randint(0, 3)) for _ in range(n)]
    lines = [' '.join(t for s in p for t in stoks(s)) for p in progs]
    out = subprocess.run([driver, 'parse'], input='\n'.join(lines) + '\n', capture_output=True, text=True).stdout.splitlines()
    bad = 0
    for p, line, res in zip(progs, lines, out):
        want = ' '.join(['E:SOURCE_FILE'] + [t for s in p for t in snodes(s)] + ['X'])
        got = res.split('steps=')[1].split(';bal=')[0] if 'steps=' in res else res
        if got != want or ' R:' in res:
            bad += 1
            print('MISMATCH\n  input ', line, '\n  want  ', want, '\n  got   ', got)
    sizes = [len(l.split()) for l in lines]
    print(f'{n} programs (tokens: min {min(sizes)}, max {max(sizes)}, total {sum(sizes)}), {len(out)} results, {bad} mismatches')
    sys.exit(1 if bad or len(out) != n else 0)

main()
