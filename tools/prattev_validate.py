#!/usr/bin/env python3
"""Validation of the event-level Pratt statement (Oq3/Props/C05Events.lean) against the compiled
model driver: random expression trees over identifier / integer literal / 19 binary / 3 prefix
operators / parentheses are made canonical for the implementation's table (minimal parentheses),
printed as token-kind lines (composite operators as joint pieces, `+` suffix = joint), parsed by
`driver parse` as an expression statement, and the step list is compared with the pre-order node
sequence `nodes t` of the Lean development.

usage: prattev_validate.py [N] [seed]     (driver: /verif/lean/.lake/build/bin/driver)"""
import random, subprocess, sys, os

BIN = {  # name: (kind, pieces, pow)  -- Oq3.PrattEv.BinOp
    'pipe2': ('PIPE2', ['PIPE', 'PIPE'], 3), 'amp2': ('AMP2', ['AMP', 'AMP'], 4), 'pipe': ('PIPE', ['PIPE'], 6),
    'caret': ('CARET', ['CARET'], 7), 'amp': ('AMP', ['AMP'], 8), 'eq2': ('EQ2', ['EQ', 'EQ'], 5),
    'neq': ('NEQ', ['BANG', 'EQ'], 5), 'lt': ('L_ANGLE', ['L_ANGLE'], 5), 'lteq': ('LTEQ', ['L_ANGLE', 'EQ'], 5),
    'gt': ('R_ANGLE', ['R_ANGLE'], 5), 'gteq': ('GTEQ', ['R_ANGLE', 'EQ'], 5),
    'shl': ('SHL', ['L_ANGLE', 'L_ANGLE'], 9), 'shr': ('SHR', ['R_ANGLE', 'R_ANGLE'], 9),
    'plus': ('PLUS', ['PLUS'], 10), 'minus': ('MINUS', ['MINUS'], 10), 'star': ('STAR', ['STAR'], 11),
    'slash': ('SLASH', ['SLASH'], 11), 'percent': ('PERCENT', ['PERCENT'], 11), 'dstar': ('DOUBLE_STAR', ['STAR', 'STAR'], 7)}
PRE = {'tilde': 'TILDE', 'bang': 'BANG', 'minus': 'MINUS'}

def rand_tree(rng, depth):
    if depth == 0 or rng.random() < 0.2:
        return (rng.choice(['id', 'int']),)
    c = rng.random()
    if c < 0.6:
        return ('bin', rng.choice(list(BIN)), rand_tree(rng, depth - 1), rand_tree(rng, depth - 1))
    if c < 0.8:
        return ('pre', rng.choice(list(PRE)), rand_tree(rng, depth - 1))
    return ('paren', rand_tree(rng, depth - 1))

def canon(t, bp):
    """insert the parentheses that make `t` canonical at level bp (mirror of CanonE)"""
    if t[0] in ('id', 'int'):
        return t
    if t[0] == 'paren':
        return ('paren', canon(t[1], 1))
    if t[0] == 'pre':
        return ('pre', t[1], canon(t[2], 255))
    _, o, l, r = t
    p = BIN[o][2]
    if bp > p:
        return ('paren', canon(t, 1))
    r2 = canon(r, p + 1)
    if l[0] == 'bin' and not (p < BIN[l[1]][2] + 1):
        l2 = ('paren', canon(l, 1))
    else:
        l2 = canon(l, bp)
    return ('bin', o, l2, r2)

def toks(t):
    if t[0] == 'id': return ['IDENT']
    if t[0] == 'int': return ['INT_NUMBER']
    if t[0] == 'paren': return ['L_PAREN'] + toks(t[1]) + ['R_PAREN']
    if t[0] == 'pre': return [PRE[t[1]]] + toks(t[2])
    ps = BIN[t[1]][1]
    return toks(t[2]) + [k + '+' for k in ps[:-1]] + [ps[-1]] + toks(t[3])

def nodes(t):
    if t[0] == 'id': return ['E:IDENTIFIER', 'T:IDENT:1', 'X']
    if t[0] == 'int': return ['E:LITERAL', 'T:INT_NUMBER:1', 'X']
    if t[0] == 'paren': return ['E:PAREN_EXPR', 'T:L_PAREN:1'] + nodes(t[1]) + ['T:R_PAREN:1', 'X']
    if t[0] == 'pre': return ['E:PREFIX_EXPR', f'T:{PRE[t[1]]}:1'] + nodes(t[2]) + ['X']
    k, ps, _ = BIN[t[1]]
    return ['E:BIN_EXPR'] + nodes(t[2]) + [f'T:{k}:{len(ps)}'] + nodes(t[3]) + ['X']

def main():
    n = int(sys.argv[1]) if len(sys.argv) > 1 else 200
    seed = int(sys.argv[2]) if len(sys.argv) > 2 else 1
    driver = os.environ.get('OQ3_DRIVER', '/verif/lean/.lake/build/bin/driver')
    rng = random.Random(seed)
    trees = [canon(rand_tree(rng, rng.randint(1, 7)), 1) for _ in range(n)]
    lines = [' '.join(toks(t) + ['SEMICOLON']) for t in trees]
    out = subprocess.run([driver, 'parse'], input='\n'.join(lines) + '\n', capture_output=True, text=True).stdout.splitlines()
    bad = 0
    for t, line, res in zip(trees, lines, out):
        want = ' '.join(['E:SOURCE_FILE', 'E:EXPR_STMT'] + nodes(t) + ['T:SEMICOLON:1', 'X', 'X'])
        got = res.split('steps=')[1].split(';bal=')[0] if 'steps=' in res else res
        if got != want:
            bad += 1
            print('MISMATCH\n  input ', line, '\n  want  ', want, '\n  got   ', got)
    sizes = [len(toks(t)) for t in trees]
    print(f'{n} trees (tokens: min {min(sizes)}, max {max(sizes)}), {len(out)} results, {bad} mismatches')
    sys.exit(1 if bad or len(out) != n else 0)

main()
