#!/usr/bin/env python3
"""Generates Oq3/Lemmas/GrammarCost*.lean: the linear work bound of the grammar model.

For every function `f` of Oq3/Model/Grammar.lean, in addition to what gen_grammar_progress.py
states (fuel, monotone position, progress), with `w = events + events since bump + nth-steps`:

    pre :  Lim B s  ∧  s.w + A_f + RR * (tokens left) ≤ B
    post:  Lim B s' ∧  s'.w + RR * (tokens left') ≤ s.w + RR * (tokens left) + A_f
           and, if a token was consumed,  … + D_f ≤ …

and the run fails neither with `fuel` nor with one of the two hang detectors (`A5`).

The constants are computed here from the text of the model (an over-approximation: every
occurrence of a parser-API call / call site counts, on whatever path it lies) and CHECKED by Lean:
  own_f  cost of the API calls in the body of f (2 per event, 1 per nth, 8 per err_recover)
  A_f    own_f + A_g for the call sites of leaf functions and of functions that f may call before
         it consumes a token (tools/rank_edges.py)        -- budget of a call that consumes nothing
  X_f    A_g for the other call sites (made after a token was consumed)
  D_f    max over the callers p that may call f before consuming of D_p + X_p   -- what the first
         consumed token must still pay for in the frames above f
  RR     max_f X_f + D_f                                   -- price of one token
"""
import re, os, sys
sys.path.insert(0, os.path.dirname(os.path.abspath(__file__)))
import rank_edges
import gen_grammar_progress as gp

root, src = gp.root, gp.src
leaf, mut = gp.leaf, gp.mut
K, R, SPEC, TRIO, FLAVORS, MANUAL = gp.K, gp.R, gp.SPEC, gp.TRIO, gp.FLAVORS, gp.MANUAL
N = rank_edges.N
WRAP, ITEM = rank_edges.WRAP, rank_edges.ITEM
ITEM_LEAF = {"gateParams": ["paramUntyped"], "gateQubits": ["paramUntyped"], "defCalQubits": ["paramUntypedOrHardwareQubit"]}

# ---------------------------------------------------------------- bodies
def bodies():
    out = {}
    ms = list(re.finditer(r"^def\s+([A-Za-z_][A-Za-z0-9_'.]*)", src, flags=re.M))
    for i, m in enumerate(ms):
        end = ms[i + 1].start() if i + 1 < len(ms) else len(src)
        txt = src[m.end():end]
        k = txt.find(":=")
        txt = txt[k + 2:]
        for stop in ("\ntermination_by", "\n/--", "\n-- (no `termination_by", "\nend\n", "\n/-!"):
            j = txt.find(stop)
            if j >= 0:
                txt = txt[:j]
        txt = re.sub(r"--.*", "", txt)          # comments
        txt = re.sub(r's?!?"[^"\n]*"', '""', txt)  # string literals
        out[m.group(1)] = txt
    return out

BODY = bodies()
leaf_names = [d[0] for d in leaf]
mut_names = [d[0] for d in mut]

def own(body):
    ev = 0
    for pat in (r"(?<![.\w])start\b", r"(?<![.\w])error\s", r"\.complete\b", r"\.precede\b", r"(?<![.\w])eat\b",
                r"(?<![.\w])bump\b", r"(?<![.\w])bumpAny\b", r"(?<![.\w])expect\b", r"(?<![.\w])typeName\b"):
        ev += len(re.findall(pat, body))
    rec = len(re.findall(r"(?<![.\w])errRecover\b", body)) + len(re.findall(r"(?<![.\w])errAndBump\b", body))
    nth = len(re.findall(r"(?<![.\w])nth\b", body))
    return 2 * ev + 8 * rec + nth

def sites(body):
    """call sites: {callee: count}; mutual callees are followed by `fuel`"""
    out = {}
    for g in mut_names:
        c = len(re.findall(r"(?<![.\w])" + re.escape(g) + r" fuel\b", body))
        if c: out[g] = c
    for g in leaf_names:
        if g in ("currentOpScan", "bumpUntilEof"):
            continue
        c = len(re.findall(r"(?<![.\w'])" + re.escape(g) + r"(?![\w'.])", body))
        if c: out[g] = c
    return out

# ---------------------------------------------------------------- nodes (parameter-list trio split by flavor)
def nodes_of(name):
    return [f"{name}@{f}" for f in FLAVORS] if name in TRIO else [name]

def node_sites(node):
    """call sites of a node as {node: count}"""
    if "@" in node:
        base, f = node.split("@")
        if base == "paramListOpenqasm":
            return {f"paramListOpenqasmLoop@{f}": 1}
        if base == "paramListOpenqasmLoop":
            return {f"paramListItem@{f}": 1, f"paramListOpenqasmLoop@{f}": 1, "atListEndToken": 2}
        out = {}
        for g in ITEM[f] + ITEM_LEAF.get(f, []):
            out[g] = out.get(g, 0) + (2 if g == "paramTyped" else 1)
        return out
    s = sites(BODY[node])
    out = {}
    for g, c in s.items():
        if g == "paramListOpenqasm":
            out[f"paramListOpenqasm@{WRAP[node]}"] = c
        else:
            out[g] = c
    return out

def node_own(node):
    base = node.split("@")[0]
    return own(BODY[base])

ALL = []
for n in leaf_names:
    if n not in ("currentOpScan", "currentOp", "bumpUntilEof"):
        ALL.append(n)
for n in mut_names:
    ALL += nodes_of(n)
SITES = {n: node_sites(n) for n in ALL}
SITES["currentOp"] = {}

def is_leaf(n): return n in leaf_names
def pre_callee(f, g):
    """may f call g before f has consumed a token?"""
    if is_leaf(g): return True
    return g in N[f]

A, X, D = {}, {}, {}
def getA(n, stack=()):
    if n in A: return A[n]
    assert n not in stack, ("cycle", stack, n)
    if n == "currentOp":
        A[n] = 0; return 0
    if n == "typeName":
        A[n] = 2; return 2
    a = node_own(n)
    for g, c in SITES[n].items():
        if is_leaf(n) or pre_callee(n, g):
            a += c * getA(g, stack + (n,))
    A[n] = a
    return a
for n in ALL: getA(n)
for n in ALL:
    X[n] = 0 if is_leaf(n) else sum(c * A[g] for g, c in SITES[n].items() if not pre_callee(n, g))
parents = {n: [] for n in ALL}
for p in ALL:
    for g in SITES[p]:
        if g in parents and (is_leaf(p) or pre_callee(p, g)):
            parents[g].append(p)
D = {n: 0 for n in ALL}
for _ in range(60):
    changed = False
    for n in ALL:
        d = max([D[p] + X[p] for p in parents[n]], default=0)
        if d != D[n]:
            D[n], changed = d, True
    if not changed: break
assert not changed
RR = max(X[n] + D[n] for n in ALL) + 1

# ---------------------------------------------------------------- specifications
def const(name, table, tbl):
    return f"{tbl[name]} flavor" if name in TRIO else str(table[name])
TBLA = {"paramListOpenqasm": "caList", "paramListOpenqasmLoop": "caLoop", "paramListItem": "caItem"}
TBLD = {"paramListOpenqasm": "cdList", "paramListOpenqasmLoop": "cdLoop", "paramListItem": "cdItem"}
# subtraction-free form (positions never pass the end of the input, `s.pos ≤ s.kinds.size` is part of the precondition):
#   w' + RR * (size - pos') ≤ w + RR * (size - pos) + A   is stated as   w' + RR * pos ≤ w + RR * pos' + A
def post(name):
    a, d = const(name, A, TBLA), const(name, D, TBLD)
    cl = ["Adv s s'", "Lim B s'", f"s'.w + {RR} * s.pos ≤ s.w + {RR} * s'.pos + {a}",
          f"(s.pos < s'.pos → s'.w + {RR} * s.pos + {d} ≤ s.w + {RR} * s'.pos + {a})"]
    return " ∧ ".join(cl + [f"({c})" for c in SPEC[name][1]])

def pre(name, fuel):
    a = const(name, A, TBLA)
    cl = []
    if fuel is not None:
        cl.append(f"{gp.rank(name)} + {K} * s.kinds.size ≤ {fuel} + {K} * s.pos")
    cl += ["s.pos ≤ s.kinds.size", "Lim B s", f"s.w + {a} + {RR} * s.kinds.size ≤ B + {RR} * s.pos"]
    if SPEC[name][0] is not None:
        cl.append(SPEC[name][0])
    return " ∧ ".join(cl)

HDR = "/- GENERATED by /verif/tools/gen_grammar_cost.py from Oq3/Model/Grammar.lean — the proofs are checked by Lean. -/\n"
NS, OPTS = gp.NS, gp.OPTS
binder_names = gp.binder_names
def write(name, text):
    open(os.path.join(root, "lean/Oq3/Lemmas", name), "w", encoding="utf-8").write(text)

def gen():
    o = [HDR + "import Oq3.Lemmas.GrammarProg0\nimport Oq3.Lemmas.Cost\n" + OPTS + "\n" + NS]
    o.append(f"/-- price of one token -/\ndef costRR : Nat := {RR}\n/-- budget of `source_file` beyond `costRR * n` -/\ndef costF : Nat := {A['sourceFileContents'] + 4}\n")
    for tbl, node, table in (("caList", "paramListOpenqasm", A), ("caLoop", "paramListOpenqasmLoop", A), ("caItem", "paramListItem", A),
                             ("cdList", "paramListOpenqasm", D), ("cdLoop", "paramListOpenqasmLoop", D), ("cdItem", "paramListItem", D)):
        o.append(f"def {tbl} : DefFlavor → Nat")
        for f in FLAVORS:
            o.append(f"  | .{f} => {table[node + '@' + f]}")
        o.append("")
    o.append("macro_rules | `(tactic| pg_norm) => `(tactic| try simp only [rkList, rkLoop, rkItem, caList, caLoop, caItem, cdList, cdLoop, cdItem])\n")
    ops = open(os.path.join(root, "lean/Oq3/Gen/Ops.lean"), encoding="utf-8").read()
    composite = set(re.findall(r"^  \(\.([A-Z_0-9]+), \[", ops, flags=re.M))
    kinds = sorted((set(re.findall(r"(?:at'|eat|expect|bump) \.([A-Z_0-9]+)", src)) | {"EOF"}) - composite)
    inst = ", ".join(f"atF_{k}" for k in kinds)
    o.append("macro_rules\n  | `(tactic| pg_nf $[$loc]?) => `(tactic|\n    simp +decide [*, P.tv, P.kindAt, Prod.mk.injEq, Adv_iff, isOk_ok, isOk_error, isSome_of_isNone, inSet_nil, opt_none, opt_none',\n      hf_ctype, hf_type', hf_lit', hf_first, hf_classical, hf_atom, hf_classical_atom, hf_first_atom, hf_guardF, atomHalt_of_ne, exprHalt_of_ne, modHead_of_ne,\n      recStop_expr, recStop_atom, recStop_atom', rkList, rkLoop, rkItem, caList, caLoop, caItem, cdList, cdLoop, cdItem,\n      " + inst + "] $[$loc]?)\n")
    for name, b, ty in leaf:
        if name in MANUAL:
            continue
        ns = binder_names(b)
        o.append(f"theorem {name}_cost {b} (B : Nat) (s : P) (hpre : {pre(name, None)}) :")
        o.append(f"    wp A5 ({name} {' '.join(ns)}) (fun r s' => {post(name)}) s := by\n  unfold {name}; pc\n")
    o.append("/-- all functions of the mutual block at one fuel level -/")
    o.append("structure AllCost (fuel : Nat) : Prop where")
    for name, b, ty in mut:
        bs = re.sub(r"^\(fuel : Nat\)\s*", "", b)
        ns = binder_names(bs)
        o.append(f"  {name} : ∀ {bs} (B : Nat) (s : P), {pre(name, 'fuel')} →\n    wp A5 (Oq3.Grammar.{name} fuel {' '.join(ns)}) (fun r s' => {post(name)}) s")
    o.append("")
    write("GrammarCost0.lean", "\n".join(o) + "\nend Oq3.Grammar\n")
    steps, combine, names = [], [], []
    for name, b, ty in mut:
        bs = re.sub(r"^\(fuel : Nat\)\s*", "", b)
        ns = binder_names(bs)
        if name in TRIO:
            bs1 = re.sub(r"^\(flavor : DefFlavor\)\s*", "", bs)
            ns1 = [n for n in ns if n != "flavor"]
            for f in FLAVORS:
                sub = lambda x: re.sub(r"\bflavor\b", f"DefFlavor.{f}", x)
                t = "set_option maxHeartbeats 3200000 in\n"
                t += f"theorem {name}_coststep_{f} (fuel : Nat) (ih : AllCost fuel) {bs1} (B : Nat) (s : P) (hpre : {sub(pre(name, 'fuel + 1'))}) :\n"
                t += f"    wp A5 (Oq3.Grammar.{name} (fuel + 1) .{f} {' '.join(ns1)}) (fun r s' => {sub(post(name))}) s := by\n"
                if name == "paramListItem":
                    t += f"  unfold Oq3.Grammar.{name}; cases innerArrayLiteral <;> pc\n\n"
                else:
                    t += f"  unfold Oq3.Grammar.{name}; pc\n\n"
                steps.append(t); names.append(name)
            under = " ".join("_" for _ in ns1)
            t = f"theorem {name}_coststep (fuel : Nat) (ih : AllCost fuel) {bs} (B : Nat) (s : P) (hpre : {pre(name, 'fuel + 1')}) :\n"
            t += f"    wp A5 (Oq3.Grammar.{name} (fuel + 1) {' '.join(ns)}) (fun r s' => {post(name)}) s := by\n"
            t += "  cases flavor\n"
            for f in FLAVORS:
                t += f"  · exact {name}_coststep_{f} fuel ih {under} B s hpre\n".replace("  B s hpre", " B s hpre")
            combine.append(t)
            continue
        if name == "arrayTypeSpec":
            # the largest proof: one lemma per value of the flag
            for v in ("true", "false"):
                sub = lambda x: re.sub(r"\bwantArrayRefType\b", v, x)
                t = "set_option maxHeartbeats 3200000 in\n"
                t += f"theorem {name}_coststep_{v} (fuel : Nat) (ih : AllCost fuel) (B : Nat) (s : P) (hpre : {sub(pre(name, 'fuel + 1'))}) :\n"
                t += f"    wp A5 (Oq3.Grammar.{name} (fuel + 1) {v}) (fun r s' => {sub(post(name))}) s := by\n"
                t += f"  unfold Oq3.Grammar.{name}; pc\n\n"
                steps.append(t); names.append(name)
            t = f"theorem {name}_coststep (fuel : Nat) (ih : AllCost fuel) {bs} (B : Nat) (s : P) (hpre : {pre(name, 'fuel + 1')}) :\n"
            t += f"    wp A5 (Oq3.Grammar.{name} (fuel + 1) {' '.join(ns)}) (fun r s' => {post(name)}) s := by\n"
            t += f"  cases wantArrayRefType\n  · exact {name}_coststep_false fuel ih B s hpre\n  · exact {name}_coststep_true fuel ih B s hpre\n"
            combine.append(t)
            continue
        t = "set_option maxHeartbeats 3200000 in\n"
        t += f"theorem {name}_coststep (fuel : Nat) (ih : AllCost fuel) {bs} (B : Nat) (s : P) (hpre : {pre(name, 'fuel + 1')}) :\n"
        t += f"    wp A5 (Oq3.Grammar.{name} (fuel + 1) {' '.join(ns)}) (fun r s' => {post(name)}) s := by\n"
        t += f"  unfold Oq3.Grammar.{name}; pc\n\n"
        steps.append(t); names.append(name)
    HEAVY = ["arrayTypeSpec", "modifiedGateCallExprLoop", "stmt", "returnsBoolClassicalDeclarationStmt", "optItem", "atomExpr",
             "switchCaseStmt", "forStmt", "ifStmt", "exprBp", "exprBpLoop", "qOrCRegParam", "complexTypeSpec", "designator", "item",
             "tupleExprLoop"]
    order = sorted(range(len(steps)), key=lambda i: (HEAVY.index(names[i]) if names[i] in HEAVY else len(HEAVY), i))
    steps, names = [steps[i] for i in order], [names[i] for i in order]
    only = os.environ.get("ONLY")
    if only:
        keep = set(only.split(","))
        steps = [t for t, n in zip(steps, names) if n in keep]
    NCH = int(os.environ.get("NCH", "20"))
    for c in range(NCH):
        write(f"GrammarCost{c + 1}.lean", HDR + "import Oq3.Lemmas.GrammarCost0\n" + OPTS + "\n" + NS + "\n" + "".join(steps[c::NCH]) + "end Oq3.Grammar\n")
    o = [HDR.rstrip()]
    for c in range(NCH):
        o.append(f"import Oq3.Lemmas.GrammarCost{c + 1}")
    o.append(OPTS + "\n" + NS)
    o.append("\n".join(combine))
    o.append("theorem allCost (fuel : Nat) : AllCost fuel := by")
    o.append("  induction fuel with")
    o.append("  | zero =>")
    o.append("    constructor")
    for name, b, ty in mut:
        if name in TRIO:
            o.append("    · intro flavor; cases flavor <;> (intros; exfalso; simp only [rkList, rkLoop, rkItem] at *; omega)")
        else:
            o.append("    · intros; exfalso; omega")
    o.append("  | succ fuel ih =>")
    o.append("    constructor")
    for name, b, ty in mut:
        bs = re.sub(r"^\(fuel : Nat\)\s*", "", b)
        under = " ".join("_" for _ in binder_names(bs))
        o.append(f"    · intros; exact {name}_coststep fuel ih {under} _ _ ‹_›".replace("  _", " _"))
    o.append("\nend Oq3.Grammar")
    write("GrammarCost.lean", "\n".join(o) + "\n")
    print("cost: RR =", RR, " F =", A["sourceFileContents"] + 4, " max A =", max(A.values()), " max D =", max(D.values()), " max X =", max(X.values()))

if __name__ == "__main__":
    if "--table" in sys.argv:
        for n in ALL:
            print(f"{n:45s} own={node_own(n):4d} A={A[n]:6d} X={X[n]:6d} D={D[n]:6d}")
    gen()
