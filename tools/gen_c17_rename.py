#!/usr/bin/env python3
"""Generator of the commutation SCRIPT section of lean/Oq3/Props/C17Rename.lean (`structure AllComm`,
the `rcomm_ih` macro_rules, the 25 `<fn>_comm_step` theorems and `theorem allComm`): an admissible
renaming of names commutes with every function of the mutual block of Oq3/Model/Sema.lean.
Same scheme as gen_c17_comm.py (text ranges), with the `rn` tables: arguments are renamed with
`rnX ρ`, text ranges are kept.  The proofs are checked by Lean.

Hand-written and NOT generated: `Ren`, the symbol-table layer (C17RenameSym.lean), the `rn*` maps,
`Comm ρ` and its combinators, the `rcomm*` macros, primitive and leaf lemmas, final theorems.
Paste the output between the `rcomm_eq` macro_rules and `/-! ### the whole analysis, renamed -/`.

    python3 tools/gen_c17_rename.py > /tmp/rename_section.lean
"""
import os, re, sys
sys.path.insert(0, os.path.dirname(os.path.abspath(__file__)))
import gen_c17_comm as G
from gen_c06_frame import MUT, names


def rn(text):
    """`erX` -> `(rnX ρ)` in terms, bare `rnX` inside simp lists; `z` -> `sp`; `comm` -> `rcomm`"""
    def bare(m):
        return re.sub(r"\ber([A-Z]\w*)", r"rn\1@@", m.group(0))
    text = re.sub(r"(simp only|simp)\s*\[[^\]]*\]", bare, text, flags=re.S)
    text = re.sub(r"\ber([A-Z]\w*)(?!@@)\b", r"(rn\1 ρ)", text).replace("@@", "")
    text = re.sub(r"\bz\b", "sp", text)
    text = re.sub(r"\bComm (?=[a-zA-Z(?_])", "Comm ρ ", text)
    text = re.sub(r"\bcomm_(eq|lemma|ih|simp|step)\b", r"rcomm_\1", text)
    text = re.sub(r"(?<![\w.])comm(?![\w.])", "rcomm", text)
    text = text.replace("structure AllComm (fuel : Nat)", "structure AllComm (ρ : Ren) (fuel : Nat)")
    text = re.sub(r"AllComm fuel\b", "AllComm ρ fuel", text)
    return text.replace("erasure commutes", "the renaming commutes")


if __name__ == "__main__":
    out = [G.gen_struct()]
    for n, b in MUT:
        out.append(G.gen_step(n, b, G.CUSTOM.get(n)))
    out.append(G.gen_all())
    print(rn("\n".join(out)))
