#!/usr/bin/env python3
"""Generator of the commutation SCRIPT section of lean/Oq3/Props/C17.lean (`structure AllComm`,
the `comm_ih` macro_rules, the 25 `<fn>_comm_step` theorems and `theorem allComm`): erasing text
ranges commutes with every function of the mutual block of Oq3/Model/Sema.lean.  The proofs are
checked by Lean.  (Oq3/Props/C17Rename.lean reuses the same scheme for renamings.)

Hand-written and NOT generated: the `er*` erase functions, `Comm` and its combinators, `comm_step`,
`comm_simp`, `comm_eq`, the primitive and leaf `*_comm` lemmas, and the final theorems
(`loop_comm`, `analyze_eraseSpans`, `span_irrelevant`).  Paste the output between the
`comm_eq` macro_rules and `/-! ### the whole analysis, erased -/`.

`RHS` = the erased arguments of every function; `CUSTOM` = per-function scripts (list loops need
`rcases` on the list first; `exprToAsgTexpr`, `exprStmtToAsgStmt` need case splits that expose the
constructor on both sides).  The function list comes from gen_c06_frame.MUT.

    python3 tools/gen_c17_comm.py > /tmp/comm_section.lean
"""
import os, sys
sys.path.insert(0, os.path.dirname(os.path.abspath(__file__)))
from gen_c06_frame import MUT, names
RHS = {
 "stmtToAsgStmt": "(erStmt s)",
 "caseExprsLoop": "(cs.map erCase)",
 "exprStmtToAsgStmt": "(e.map erExpr)",
 "modifiersLoop": "(ms.map erModifier)",
 "parenExprToAsgTexpr": "(erParen p)",
 "exprToAsgTexpr": "(e.map erExpr)",
 "setExpressionToAsgType": "(erSet s)",
 "rangeExpressionToAsgType": "(erRange r)",
 "gateCallExprToAsgStmt": "(erGateCall g) ms",
 "callExprToAsgTexpr": "z (al.map erArgList) (i.map erIdent)",
 "gateOperandToAsgTexpr": "(erGateOperand g)",
 "indexOperatorToAsgType": "(erIndexOp i)",
 "expressionListToAsgType": "(erExprList el)",
 "qubitListToAsgTexpr": "(ql.map erQubitList)",
 "gateOperandsLoop": "(gs.map erGateOperand)",
 "expressionListToAsgTexpr": "(erExprList el)",
 "exprsLoop": "(es.map erExpr)",
 "blockExprToAsgStmtList": "(erBlock b)",
 "stmtsLoop": "(ss.map erStmt)",
 "blockExprToAsgType": "(erBlock b)",
 "blockOrStmtToAsgType": "(erBos b)",
 "classicalDeclarationStatementToAsgStmt": "z a (st.map erScalarType) k (n.map erName) (e.map erExpr)",
 "assignmentStmtToAsgStmt": "z (i.map erIdent) (rhs.map erExpr) (ii.map erIndexedIdent)",
 "indexedIdentifierToAsgType": "(erIndexedIdent ii)",
 "indexOperatorsLoop": "(ixs.map erIndexOp)",
}
def _loop(fn, var):
    return (f"  rcases {var} with _ | ⟨x, rest⟩ <;> simp only [List.map_cons, List.map_nil] <;> "
            f"(unfold Oq3.Sema.{fn}; comm)")


CUSTOM = {
 "caseExprsLoop": _loop("caseExprsLoop", "cs"),
 "modifiersLoop": _loop("modifiersLoop", "ms"),
 "gateOperandsLoop": _loop("gateOperandsLoop", "gs"),
 "exprsLoop": _loop("exprsLoop", "es"),
 "stmtsLoop": _loop("stmtsLoop", "ss"),
 "indexOperatorsLoop": _loop("indexOperatorsLoop", "ixs"),
 "exprStmtToAsgStmt": "  rcases e with _ | e\n  · unfold Oq3.Sema.exprStmtToAsgStmt; comm\n"
    "  cases e <;> (try cases ‹Ast.GPhaseCallExpr›) <;> (try cases ‹Option Ast.GateCallExpr›) <;>\n"
    "    (simp only [Option.map_some, erExpr]; unfold Oq3.Sema.exprStmtToAsgStmt; comm)",
 "exprToAsgTexpr": "  rcases e with _ | e\n  · unfold Oq3.Sema.exprToAsgTexpr; comm\n  cases e\n"
    "  case prefixExpr sp op operand =>\n    rcases operand with _ | o\n"
    "    · simp only [Option.map_some, Option.map_none, erExpr, erOExpr]; unfold Oq3.Sema.exprToAsgTexpr; comm\n"
    "    · cases o <;> (simp only [Option.map_some, erExpr, erOExpr]; unfold Oq3.Sema.exprToAsgTexpr; comm)\n"
    "  all_goals (try cases ‹Ast.UnsupportedExprKind›)\n"
    "  all_goals (simp only [Option.map_some, erExpr]; unfold Oq3.Sema.exprToAsgTexpr; comm)",
 "stmtToAsgStmt": "  unfold Oq3.Sema.stmtToAsgStmt\n  try simp only [withScope]\n  comm",
}
def stmt(n,b,fuel):
    return f"Comm id (Oq3.Sema.{n} {fuel} {' '.join(names(b))}) (Oq3.Sema.{n} {fuel} {RHS[n]})"
def gen_struct():
    o=["/-- erasure commutes with every function of the mutual block at one fuel -/","structure AllComm (fuel : Nat) : Prop where"]
    for n,b in MUT:
        o.append(f"  {n} : ∀ {b}, {stmt(n,b,'fuel')}")
    o.append("")
    alts=[f"with_reducible exact h_{n} {' '.join('_' for _ in names(b))}" for n,b in MUT]
    alts+=[f"(with_reducible refine Comm.of_eq (h_{n} {' '.join('_' for _ in names(b))}) ?_; comm_eq)" for n,b in MUT]
    o.append("set_option hygiene false in")
    o.append("macro_rules | `(tactic| comm_ih) => `(tactic| first\n  | "+"\n  | ".join(alts)+")\n")
    return "\n".join(o)
def gen_step(n,b,script=None):
    pat="⟨"+", ".join(f"h_{m}" for m,_ in MUT)+"⟩"
    o=[]
    o.append("set_option maxHeartbeats 4000000 in")
    o.append(f"theorem {n}_comm_step (fuel : Nat) (ih : AllComm fuel) {b} :")
    o.append(f"    {stmt(n,b,'(fuel + 1)')} := by")
    o.append(f"  obtain {pat} := ih")
    o.append(script if script else f"  unfold Oq3.Sema.{n}\n  comm")
    return "\n".join(o)+"\n"
def gen_all():
    o=["theorem allComm (fuel : Nat) : AllComm fuel := by","  induction fuel with","  | zero =>","    constructor"]
    for n,b in MUT:
        o.append(f"    · intros; unfold Oq3.Sema.{n}; comm")
    o+=["  | succ fuel ih =>","    constructor"]
    for n,b in MUT:
        o.append(f"    · intros; exact {n}_comm_step fuel ih {' '.join('_' for _ in names(b))}")
    return "\n".join(o)+"\n"


if __name__ == "__main__":
    print(gen_struct())
    for n, b in MUT:
        print(gen_step(n, b, CUSTOM.get(n)))
    print(gen_all())
