#!/usr/bin/env python3
"""Validation of the EXTENDED reference language of Oq3/Props/C04Lang2.lean against the compiled model
driver: random well-formed programs (`WFTop`: nested blocks, brace-less bodies, else-if chains, switch, bare blocks,
extended expressions of random depth with postfix operators) are printed as token-kind lines, parsed by
`driver parse`, and the step list is compared with the pre-order node sequence `nodesP2` of the Lean
development (mirrored here); also checks that no error step appears.

usage: langev2_validate.py [N] [seed]     (driver: $OQ3_DRIVER or /verif/lean/.lake/build/bin/driver)"""
import random, subprocess, sys, os

BIN = {
    'pipe2': ('PIPE2', ['PIPE', 'PIPE'], 3), 'amp2': ('AMP2', ['AMP', 'AMP'], 4), 'pipe': ('PIPE', ['PIPE'], 6),
    'caret': ('CARET', ['CARET'], 7), 'amp': ('AMP', ['AMP'], 8), 'eq2': ('EQ2', ['EQ', 'EQ'], 5),
    'neq': ('NEQ', ['BANG', 'EQ'], 5), 'lt': ('L_ANGLE', ['L_ANGLE'], 5), 'lteq': ('LTEQ', ['L_ANGLE', 'EQ'], 5),
    'gt': ('R_ANGLE', ['R_ANGLE'], 5), 'gteq': ('GTEQ', ['R_ANGLE', 'EQ'], 5),
    'shl': ('SHL', ['L_ANGLE', 'L_ANGLE'], 9), 'shr': ('SHR', ['R_ANGLE', 'R_ANGLE'], 9),
    'plus': ('PLUS', ['PLUS'], 10), 'minus': ('MINUS', ['MINUS'], 10), 'star': ('STAR', ['STAR'], 11),
    'slash': ('SLASH', ['SLASH'], 11), 'percent': ('PERCENT', ['PERCENT'], 11), 'dstar': ('DOUBLE_STAR', ['STAR', 'STAR'], 7)}
PRE = {'tilde': 'TILDE', 'bang': 'BANG', 'minus': 'MINUS'}
TY = {'int': 'INT_TY', 'uint': 'UINT_TY', 'float': 'FLOAT_TY', 'angle': 'ANGLE_TY', 'bit': 'BIT_TY', 'bool': 'BOOL_TY'}
LIT = {'int': 'INT_NUMBER', 'float': 'FLOAT_NUMBER', 'bits': 'BIT_STRING', 'tru': 'TRUE_KW', 'fals': 'FALSE_KW'}
R = None

def sep(xs, f, s):
    out = []
    for i, x in enumerate(xs):
        if i: out.append(s)
        out += f(x)
    return out

# ---------------------------------------------------------------- expressions (already canonical by construction)
def rand_items(d, n=None):
    def item():
        c = R.random()
        e = lambda: rand_x(d, 1, no_tilde=True)
        if c < 0.7: return ('ex', e())
        if c < 0.9: return ('r2', e(), rand_x(d, 1))
        return ('r3', e(), rand_x(d, 1), rand_x(d, 1))
    return [item() for _ in range(n or R.randint(1, 2))]

def rand_idx(d): return [rand_items(d) for _ in range(R.randint(1, 2))]

def rand_prim(d, no_meas=False):
    c = R.random()
    if d <= 0 or c < 0.35:
        k = R.choice(['id', 'id', 'lit', 'timing', 'hw'] + ([] if no_meas else ['measure']))
        if k == 'lit': return ('lit', R.choice(list(LIT)))
        if k == 'timing': return ('timing', R.choice(['int', 'float']))
        if k == 'measure': return ('measure', rand_q(d - 1))
        return (k,)
    if c < 0.5: return ('paren', rand_x(d - 1, 1))
    if c < 0.6:
        ty = R.choice(list(TY))
        if ty != 'bool' and R.random() < 0.4:
            return ('castW', ty, rand_x(d - 1, 1, width=True), rand_x(d - 1, 1))
        return ('cast0', ty, rand_x(d - 1, 1))
    if c < 0.72: return ('idIdx', rand_idx(d - 1))
    base = rand_prim(d - 1, no_meas=True)
    if c < 0.88 or base[0] not in ('paren', 'cast0', 'castW', 'call', 'index'):
        if base[0] in ('lit', 'timing', 'hw', 'measure'):   # a call on a literal is fine for the grammar, keep it rare
            base = ('id',)
        return ('call', base, [rand_x(d - 1, 1) for _ in range(R.randint(0, 2))])
    return ('index', base, rand_items(d - 1))

def first_tok(x): return xtoks(x)[0].rstrip('+')

def rand_x(d, bp, no_tilde=False, width=False):
    """a canonical expression at level bp"""
    while True:
        x = _rand_x(d, bp)
        f = first_tok(x)
        if no_tilde and f in ('TILDE', 'MEASURE_KW'): continue
        if width and f in ('FLOAT_NUMBER', 'BIT_STRING'): continue
        return x

def _rand_x(d, bp):
    c = R.random()
    if d <= 0 or c < 0.45: return ('prim', rand_prim(d))
    if c < 0.6: return ('pre', R.choice(list(PRE)), _rand_x(d - 1, 255))
    ops = [o for o in BIN if BIN[o][2] >= bp]
    if not ops: return ('prim', ('paren', rand_x(d - 1, 1)))
    o = R.choice(ops)
    p = BIN[o][2]
    l = _rand_x(d - 1, bp)
    if l[0] == 'bin' and not (p < BIN[l[1]][2] + 1):
        l = ('prim', ('paren', l if canon_ok(l, 1) else rand_x(d - 1, 1)))
    return ('bin', o, l, _rand_x(d - 1, p + 1))

def canon_ok(x, bp): return True   # trees are generated canonical (left operands re-parenthesised above)

def qtoks(q):
    if q[0] == 'id': return ['IDENT']
    if q[0] == 'hw': return ['HARDWAREIDENT']
    return ['IDENT'] + idxtoks(q[1])
def qnodes(q):
    if q[0] == 'id': return ['E:IDENTIFIER', 'T:IDENT:1', 'X']
    if q[0] == 'hw': return ['E:HARDWARE_QUBIT', 'T:HARDWAREIDENT:1', 'X']
    return ['E:INDEXED_IDENTIFIER', 'E:IDENTIFIER', 'T:IDENT:1', 'X'] + idxnodes(q[1]) + ['X']
def rand_q(d):
    c = R.random()
    if c < 0.5: return ('id',)
    if c < 0.65: return ('hw',)
    return ('idx', rand_idx(max(d, 0)))

def itemtoks(i):
    if i[0] == 'ex': return xtoks(i[1])
    return sep(list(i[1:]), xtoks, 'COLON')
def itemnodes(i):
    if i[0] == 'ex': return xnodes(i[1])
    return ['E:RANGE_EXPR'] + sep(list(i[1:]), xnodes, 'T:COLON:1') + ['X']
def itemstoks(is_): return sep(is_, itemtoks, 'COMMA')
def itemsnodes(is_): return sep(is_, itemnodes, 'T:COMMA:1')
def idxtoks(ixs): return [t for is_ in ixs for t in ['L_BRACK'] + itemstoks(is_) + ['R_BRACK']]
def idxnodes(ixs):
    return [t for is_ in ixs for t in ['E:INDEX_OPERATOR', 'T:L_BRACK:1', 'E:EXPRESSION_LIST'] + itemsnodes(is_) + ['X', 'T:R_BRACK:1', 'X']]

def ptoks(p):
    k = p[0]
    if k == 'id': return ['IDENT']
    if k == 'lit': return [LIT[p[1]]]
    if k == 'timing': return [LIT[p[1]], 'IDENT']
    if k == 'hw': return ['HARDWAREIDENT']
    if k == 'paren': return ['L_PAREN'] + xtoks(p[1]) + ['R_PAREN']
    if k == 'cast0': return [TY[p[1]], 'L_PAREN'] + xtoks(p[2]) + ['R_PAREN']
    if k == 'castW': return [TY[p[1]], 'L_BRACK'] + xtoks(p[2]) + ['R_BRACK', 'L_PAREN'] + xtoks(p[3]) + ['R_PAREN']
    if k == 'measure': return ['MEASURE_KW'] + qtoks(p[1])
    if k == 'idIdx': return ['IDENT'] + idxtoks(p[1])
    if k == 'call': return ptoks(p[1]) + ['L_PAREN'] + sep(p[2], xtoks, 'COMMA') + ['R_PAREN']
    if k == 'index': return ptoks(p[1]) + ['L_BRACK'] + itemstoks(p[2]) + ['R_BRACK']
def pnodes(p):
    k = p[0]
    if k == 'id': return ['E:IDENTIFIER', 'T:IDENT:1', 'X']
    if k == 'lit': return ['E:LITERAL', f'T:{LIT[p[1]]}:1', 'X']
    if k == 'timing': return ['E:TIMING_LITERAL', 'E:LITERAL', f'T:{LIT[p[1]]}:1', 'X', 'E:IDENTIFIER', 'T:IDENT:1', 'X', 'X']
    if k == 'hw': return ['E:HARDWARE_QUBIT', 'T:HARDWAREIDENT:1', 'X']
    if k == 'paren': return ['E:PAREN_EXPR', 'T:L_PAREN:1'] + xnodes(p[1]) + ['T:R_PAREN:1', 'X']
    if k == 'cast0': return ['E:CAST_EXPRESSION', 'E:SCALAR_TYPE', f'T:{TY[p[1]]}:1', 'X', 'T:L_PAREN:1'] + xnodes(p[2]) + ['T:R_PAREN:1', 'X']
    if k == 'castW':
        return ['E:CAST_EXPRESSION', 'E:SCALAR_TYPE', f'T:{TY[p[1]]}:1', 'E:DESIGNATOR', 'T:L_BRACK:1'] + xnodes(p[2]) + \
            ['T:R_BRACK:1', 'X', 'X', 'T:L_PAREN:1'] + xnodes(p[3]) + ['T:R_PAREN:1', 'X']
    if k == 'measure': return ['E:MEASURE_EXPRESSION', 'T:MEASURE_KW:1'] + qnodes(p[1]) + ['X']
    if k == 'idIdx': return ['E:INDEXED_IDENTIFIER', 'E:IDENTIFIER', 'T:IDENT:1', 'X'] + idxnodes(p[1]) + ['X']
    if k == 'call':
        return ['E:CALL_EXPR'] + pnodes(p[1]) + ['E:ARG_LIST', 'E:EXPRESSION_LIST', 'T:L_PAREN:1'] + sep(p[2], xnodes, 'T:COMMA:1') + \
            ['T:R_PAREN:1', 'X', 'X', 'X']
    if k == 'index':
        return ['E:INDEX_EXPR'] + pnodes(p[1]) + ['E:INDEX_OPERATOR', 'T:L_BRACK:1', 'E:EXPRESSION_LIST'] + itemsnodes(p[2]) + \
            ['X', 'T:R_BRACK:1', 'X', 'X']
def xtoks(x):
    if x[0] == 'prim': return ptoks(x[1])
    if x[0] == 'pre': return [PRE[x[1]]] + xtoks(x[2])
    ps = BIN[x[1]][1]
    return xtoks(x[2]) + [k + '+' for k in ps[:-1]] + [ps[-1]] + xtoks(x[3])
def xnodes(x):
    if x[0] == 'prim': return pnodes(x[1])
    if x[0] == 'pre': return ['E:PREFIX_EXPR', f'T:{PRE[x[1]]}:1'] + xnodes(x[2]) + ['X']
    k, ps, _ = BIN[x[1]]
    return ['E:BIN_EXPR'] + xnodes(x[2]) + [f'T:{k}:{len(ps)}'] + xnodes(x[3]) + ['X']

def expr(bp=1, **kw): return rand_x(R.randint(0, 3), bp, **kw)
def stmt_expr():
    """an expression statement / return value: does not start with a type keyword"""
    while True:
        x = expr()
        if first_tok(x) not in TY.values(): return x

# ---------------------------------------------------------------- statements
def rand_mod():
    c = R.choice(['inv', 'pow', 'ctrl', 'negctrl'])
    if c == 'inv': return ('inv',)
    if c == 'pow': return ('pow', expr())
    return (c, expr() if R.random() < 0.5 else None)
def modtoks(m):
    kw = {'inv': 'INV_KW', 'pow': 'POW_KW', 'ctrl': 'CTRL_KW', 'negctrl': 'NEGCTRL_KW'}[m[0]]
    arg = m[1] if len(m) > 1 else None
    return [kw] + (['L_PAREN'] + xtoks(arg) + ['R_PAREN'] if arg else []) + ['AT']
def modnodes(m):
    kw = {'inv': 'INV_KW', 'pow': 'POW_KW', 'ctrl': 'CTRL_KW', 'negctrl': 'NEGCTRL_KW'}[m[0]]
    nd = {'inv': 'INV_MODIFIER', 'pow': 'POW_MODIFIER', 'ctrl': 'CTRL_MODIFIER', 'negctrl': 'NEG_CTRL_MODIFIER'}[m[0]]
    arg = m[1] if len(m) > 1 else None
    return [f'E:{nd}', f'T:{kw}:1'] + (['E:PAREN_EXPR', 'T:L_PAREN:1'] + xnodes(arg) + ['T:R_PAREN:1', 'X'] if arg else []) + ['T:AT:1', 'X']

def rand_qs(): return [rand_q(1) for _ in range(R.randint(1, 3))]
def rand_ty_w():
    ty = R.choice(list(TY))
    return ty, (expr(width=True) if ty != 'bool' and R.random() < 0.4 else None)

def rand_stmt(depth):
    kinds = ['decl', 'decl', 'io', 'qubit', 'oldreg', 'let', 'assign', 'assign', 'expr', 'expr', 'gate', 'gate', 'modgate', 'gphase',
             'modgphase', 'reset', 'barrier', 'delay', 'brk', 'cont', 'end', 'pragma', 'annot', 'incl', 'version', 'extern', 'ret']
    if depth > 0: kinds += ['if', 'ifelse', 'while', 'for', 'switch', 'block', 'gatedef', 'def', 'cal'] * 2
    k = R.choice(kinds)
    if k == 'decl':
        ty, w = rand_ty_w()
        return ('decl', R.random() < 0.3, ty, w, expr() if R.random() < 0.6 else None)
    if k == 'io': return ('io', R.random() < 0.5) + rand_ty_w()
    if k == 'qubit': return ('qubit', expr(width=True) if R.random() < 0.5 else None)
    if k == 'oldreg': return ('oldreg', R.random() < 0.5, rand_items(1))
    if k == 'let': return ('let', expr())
    if k == 'assign': return ('assign', rand_idx(1) if R.random() < 0.4 else None, expr(12))
    if k == 'expr': return ('expr', stmt_expr())
    if k == 'gate': return ('gate', [], [expr() for _ in range(R.randint(0, 2))], rand_qs())
    if k == 'modgate': return ('gate', [rand_mod() for _ in range(R.randint(1, 3))], [expr() for _ in range(R.randint(0, 2))], rand_qs())
    if k == 'gphase': return ('gphase', [], expr())
    if k == 'modgphase': return ('gphase', [rand_mod() for _ in range(R.randint(1, 2))], expr())
    if k == 'reset': return ('reset', rand_q(1))
    if k == 'barrier': return ('barrier', rand_qs())
    if k == 'delay': return ('delay', expr(width=True), rand_qs())
    if k == 'extern': return ('extern', [R.choice(list(TY)) for _ in range(R.randint(0, 3))], R.choice(list(TY)))
    if k == 'ret': return ('ret', stmt_expr() if R.random() < 0.6 else None)
    if k == 'if': return ('if', expr(), rand_body(depth - 1), None)
    if k == 'ifelse':
        while True:
            thn = rand_body(depth - 1)
            if not (thn[0] == 'one' and ends_if(thn[1])): break
        return ('if', expr(), thn, rand_body(depth - 1, allow_if=True))
    if k == 'while': return ('while', expr(), rand_body(depth - 1))
    if k == 'for':
        it = R.choice(['r2', 'r3', 'set', 'ex'])
        if it == 'r2': itv = ('r2', expr(), expr())
        elif it == 'r3': itv = ('r3', expr(), expr(), expr())
        elif it == 'set': itv = ('set', rand_items(1))
        else: itv = ('ex', expr())
        body = ('blk', rand_block(depth - 1, True)) if it == 'ex' else rand_body(depth - 1)
        ty, w = rand_ty_w()
        return ('for', ty, itv, body, w)
    if k == 'switch':
        cases = [(rand_items(1), rand_block(depth - 1, True)) for _ in range(R.randint(0, 2))]
        dflt = rand_block(depth - 1, True) if (not cases or R.random() < 0.5) else None
        return ('switch', expr(), cases, dflt)
    if k == 'block': return ('block', rand_block(depth - 1, True))
    if k == 'gatedef': return ('gatedef', R.choice([None, 0, 1, 2]), R.randint(0, 2), rand_block(depth - 1, True))
    if k == 'def':
        return ('def', [R.choice(list(TY) + ['qubit']) for _ in range(R.randint(0, 3))], R.choice([None] + list(TY)), rand_block(depth - 1, True))
    if k == 'cal': return ('cal', rand_block(depth - 1, True))
    return (k,)

def rand_body(depth, allow_if=False):
    if R.random() < 0.55: return ('blk', rand_block(depth, True))
    while True:
        st = rand_stmt(depth)
        if st[0] == 'block': continue           # a brace-less body is not a bare block
        return ('one', st)

def body_last(b): return b[1] if b[0] == 'one' else None
def ends(st, pred, through):
    if pred(st): return True
    k = st[0]
    b = None
    if k == 'if': b = st[3] if st[3] is not None else (st[2] if through else None)
    elif k in ('while',): b = st[2]
    elif k == 'for': b = st[3]
    if b is not None and b[0] == 'one': return ends(b[1], pred, through)
    return False
def ends_assign(st): return ends(st, lambda s: s[0] == 'assign', True)
def ends_block(st): return ends(st, lambda s: s[0] == 'block', True)
def ends_if(st):
    if st[0] == 'if' and st[3] is None: return True
    k = st[0]
    b = st[3] if k == 'if' else st[2] if k == 'while' else st[3] if k == 'for' else None
    return b is not None and b[0] == 'one' and ends_if(b[1])
def starts_minus(st): return st[0] == 'expr' and first_tok(st[1]) == 'MINUS'

def rand_block(depth, curly):
    out = []
    n = R.randint(0, 4)
    while len(out) < n:
        st = rand_stmt(depth)
        if out and ends_assign(out[-1]) and starts_minus(st): continue      # F09e
        out.append(st)
    while out and curly and ends_block(out[-1]):                               # F09d: a bare block is not last in a block
        out.append(('brk',))
    return out

ITEM = {'decl', 'io', 'qubit', 'gatedef', 'brk', 'cont', 'end', 'if', 'while', 'for', 'def', 'cal', 'extern', 'reset', 'barrier',
        'version', 'incl', 'switch', 'delay', 'let'}
def rand_program(depth):
    """WFTop: `let` in the item run is an alias; from the first non-item statement on, a LET_STMT"""
    prog = rand_block(depth, False)
    out, handed = [], False
    for st in prog:
        if not handed and st[0] not in ITEM: handed = True
        if st[0] == 'let': st = ('let', st[1], not handed)
        out.append(st)
    return out

def tytoks(ty, w): return [TY[ty]] + (['L_BRACK'] + xtoks(w) + ['R_BRACK'] if w else [])
def tynodes(ty, w):
    return ['E:SCALAR_TYPE', f'T:{TY[ty]}:1'] + (['E:DESIGNATOR', 'T:L_BRACK:1'] + xnodes(w) + ['T:R_BRACK:1', 'X'] if w else []) + ['X']
def btoks(b): return ['L_CURLY'] + [t for s in b for t in stoks(s)] + ['R_CURLY']
def bnodes(b): return ['E:BLOCK_EXPR', 'T:L_CURLY:1'] + [t for s in b for t in snodes(s)] + ['T:R_CURLY:1', 'X']
def bodytoks(b): return btoks(b[1]) if b[0] == 'blk' else stoks(b[1])
def bodynodes(b): return bnodes(b[1]) if b[0] == 'blk' else snodes(b[1])
PK = dict(TY, qubit='QUBIT_KW')
def ptoksn(n): return ['IDENT'] + ['COMMA', 'IDENT'] * n
def pnodesn(n): return ['E:PARAM', 'T:IDENT:1', 'X'] + ['T:COMMA:1', 'E:PARAM', 'T:IDENT:1', 'X'] * n
NAME = ['E:NAME', 'T:IDENT:1', 'X']
SEMI = ['T:SEMICOLON:1', 'X']

def stoks(s):
    k = s[0]
    if k == 'decl': return (['CONST_KW'] if s[1] else []) + tytoks(s[2], s[3]) + ['IDENT'] + (['EQ'] + xtoks(s[4]) if s[4] else []) + ['SEMICOLON']
    if k == 'io': return ['OUTPUT_KW' if s[1] else 'INPUT_KW'] + tytoks(s[2], s[3]) + ['IDENT', 'SEMICOLON']
    if k == 'qubit': return ['QUBIT_KW'] + (['L_BRACK'] + xtoks(s[1]) + ['R_BRACK'] if s[1] else []) + ['IDENT', 'SEMICOLON']
    if k == 'oldreg': return ['CREG_KW' if s[1] else 'QREG_KW', 'IDENT', 'L_BRACK'] + itemstoks(s[2]) + ['R_BRACK', 'SEMICOLON']
    if k == 'let': return ['LET_KW', 'IDENT', 'EQ'] + xtoks(s[1]) + ['SEMICOLON']
    if k == 'assign': return ['IDENT'] + (idxtoks(s[1]) if s[1] else []) + ['EQ'] + xtoks(s[2]) + ['SEMICOLON']
    if k == 'expr': return xtoks(s[1]) + ['SEMICOLON']
    if k == 'gate':
        return [t for m in s[1] for t in modtoks(m)] + ['IDENT'] + (['L_PAREN'] + sep(s[2], xtoks, 'COMMA') + ['R_PAREN'] if s[2] else []) + \
            sep(s[3], qtoks, 'COMMA') + ['SEMICOLON']
    if k == 'gphase': return [t for m in s[1] for t in modtoks(m)] + ['GPHASE_KW'] + xtoks(s[2]) + ['SEMICOLON']
    if k == 'reset': return ['RESET_KW'] + qtoks(s[1]) + ['SEMICOLON']
    if k == 'barrier': return ['BARRIER_KW'] + sep(s[1], qtoks, 'COMMA') + ['SEMICOLON']
    if k == 'delay': return ['DELAY_KW', 'L_BRACK'] + xtoks(s[1]) + ['R_BRACK'] + sep(s[2], qtoks, 'COMMA') + ['SEMICOLON']
    if k == 'brk': return ['BREAK_KW', 'SEMICOLON']
    if k == 'cont': return ['CONTINUE_KW', 'SEMICOLON']
    if k == 'end': return ['END_KW', 'SEMICOLON']
    if k == 'pragma': return ['PRAGMA']
    if k == 'annot': return ['ANNOTATION']
    if k == 'incl': return ['INCLUDE_KW', 'STRING', 'SEMICOLON']
    if k == 'version': return ['O_P_E_N_Q_A_S_M_KW', 'FLOAT_NUMBER', 'SEMICOLON']
    if k == 'extern': return ['EXTERN_KW', 'IDENT', 'L_PAREN'] + sep(s[1], lambda t: [TY[t]], 'COMMA') + ['R_PAREN', 'MINUS+', 'R_ANGLE', TY[s[2]], 'SEMICOLON']
    if k == 'ret': return ['RETURN_KW'] + (xtoks(s[1]) if s[1] else []) + ['SEMICOLON']
    if k == 'if':
        return ['IF_KW', 'L_PAREN'] + xtoks(s[1]) + ['R_PAREN'] + bodytoks(s[2]) + (['ELSE_KW'] + bodytoks(s[3]) if s[3] is not None else [])
    if k == 'while': return ['WHILE_KW', 'L_PAREN'] + xtoks(s[1]) + ['R_PAREN'] + bodytoks(s[2])
    if k == 'for':
        it = s[2]
        if it[0] in ('r2', 'r3'): itt = ['L_BRACK'] + sep(list(it[1:]), xtoks, 'COLON') + ['R_BRACK']
        elif it[0] == 'set': itt = ['L_CURLY'] + itemstoks(it[1]) + ['R_CURLY']
        else: itt = xtoks(it[1])
        return ['FOR_KW'] + tytoks(s[1], s[4]) + ['IDENT', 'IN_KW'] + itt + bodytoks(s[3])
    if k == 'switch':
        return ['SWITCH_KW', 'L_PAREN'] + xtoks(s[1]) + ['R_PAREN', 'L_CURLY'] + \
            [t for (v, b) in s[2] for t in ['CASE_KW'] + itemstoks(v) + btoks(b)] + (['DEFAULT_KW'] + btoks(s[3]) if s[3] is not None else []) + ['R_CURLY']
    if k == 'block': return btoks(s[1])
    if k == 'gatedef':
        return ['GATE_KW', 'IDENT'] + (['L_PAREN'] + ptoksn(s[1]) + ['R_PAREN'] if s[1] is not None else []) + ptoksn(s[2]) + btoks(s[3])
    if k == 'def':
        return ['DEF_KW', 'IDENT', 'L_PAREN'] + sep(s[1], lambda p: [PK[p], 'IDENT'], 'COMMA') + ['R_PAREN'] + \
            (['MINUS+', 'R_ANGLE', TY[s[2]]] if s[2] else []) + btoks(s[3])
    if k == 'cal': return ['CAL_KW'] + btoks(s[1])

def wrap(kind, inner): return ['E:EXPR_STMT', f'E:{kind}'] + inner + SEMI

def snodes(s):
    k = s[0]
    if k == 'decl':
        return ['E:CLASSICAL_DECLARATION_STATEMENT'] + (['T:CONST_KW:1'] if s[1] else []) + tynodes(s[2], s[3]) + NAME + \
            (['T:EQ:1'] + xnodes(s[4]) if s[4] else []) + SEMI
    if k == 'io': return ['E:I_O_DECLARATION_STATEMENT', f"T:{'OUTPUT_KW' if s[1] else 'INPUT_KW'}:1"] + tynodes(s[2], s[3]) + NAME + SEMI
    if k == 'qubit':
        return ['E:QUANTUM_DECLARATION_STATEMENT', 'E:QUBIT_TYPE', 'T:QUBIT_KW:1'] + \
            (['E:DESIGNATOR', 'T:L_BRACK:1'] + xnodes(s[1]) + ['T:R_BRACK:1', 'X'] if s[1] else []) + ['X'] + NAME + SEMI
    if k == 'oldreg':
        return ['E:OLD_STYLE_DECLARATION_STATEMENT', 'E:OLD_TYPED_PARAM', f"T:{'CREG_KW' if s[1] else 'QREG_KW'}:1", 'T:IDENT:1',
                'E:INDEX_OPERATOR', 'T:L_BRACK:1', 'E:EXPRESSION_LIST'] + itemsnodes(s[2]) + ['X', 'T:R_BRACK:1', 'X', 'X'] + SEMI
    if k == 'let':
        if len(s) > 2 and s[2]:
            return ['E:ALIAS_DECLARATION_STATEMENT', 'T:LET_KW:1'] + NAME + ['T:EQ:1'] + xnodes(s[1]) + SEMI
        return ['E:LET_STMT', 'T:LET_KW:1', 'T:IDENT:1', 'T:EQ:1'] + xnodes(s[1]) + SEMI
    if k == 'assign':
        tgt = pnodes(('idIdx', s[1])) if s[1] else pnodes(('id',))
        return ['E:ASSIGNMENT_STMT'] + tgt + ['T:EQ:1'] + xnodes(s[2]) + SEMI
    if k == 'expr': return ['E:EXPR_STMT'] + xnodes(s[1]) + SEMI
    if k == 'gate':
        args = ['E:ARG_LIST', 'E:EXPRESSION_LIST', 'T:L_PAREN:1'] + sep(s[2], xnodes, 'T:COMMA:1') + ['T:R_PAREN:1', 'X', 'X'] if s[2] else []
        call = ['E:IDENTIFIER', 'T:IDENT:1', 'X'] + args + ['E:QUBIT_LIST'] + sep(s[3], qnodes, 'T:COMMA:1') + ['X', 'X']
        if not s[1]: return wrap('GATE_CALL_EXPR', call)
        return wrap('MODIFIED_GATE_CALL_EXPR', [t for m in s[1] for t in modnodes(m)] + ['E:GATE_CALL_EXPR'] + call + ['X'])
    if k == 'gphase':
        inner = ['T:GPHASE_KW:1'] + xnodes(s[2]) + ['X']
        if not s[1]: return wrap('G_PHASE_CALL_EXPR', inner)
        return wrap('MODIFIED_GATE_CALL_EXPR', [t for m in s[1] for t in modnodes(m)] + ['E:G_PHASE_CALL_EXPR'] + inner + ['X'])
    if k == 'reset': return ['E:RESET', 'T:RESET_KW:1'] + qnodes(s[1]) + SEMI
    if k == 'barrier': return ['E:BARRIER', 'T:BARRIER_KW:1', 'E:QUBIT_LIST'] + sep(s[1], qnodes, 'T:COMMA:1') + ['X'] + SEMI
    if k == 'delay':
        return ['E:DELAY_STMT', 'T:DELAY_KW:1', 'E:DESIGNATOR', 'T:L_BRACK:1'] + xnodes(s[1]) + ['T:R_BRACK:1', 'X', 'E:QUBIT_LIST'] + \
            sep(s[2], qnodes, 'T:COMMA:1') + ['X'] + SEMI
    if k == 'brk': return ['E:BREAK_STMT', 'T:BREAK_KW:1'] + SEMI
    if k == 'cont': return ['E:CONTINUE_STMT', 'T:CONTINUE_KW:1'] + SEMI
    if k == 'end': return ['E:END_STMT', 'T:END_KW:1'] + SEMI
    if k == 'pragma': return ['E:PRAGMA_STATEMENT', 'T:PRAGMA:1', 'X']
    if k == 'annot': return ['E:ANNOTATION_STATEMENT', 'T:ANNOTATION:1', 'X']
    if k == 'incl': return ['E:INCLUDE', 'T:INCLUDE_KW:1', 'E:FILE_PATH', 'T:STRING:1', 'X'] + SEMI
    if k == 'version': return ['E:VERSION_STRING', 'T:O_P_E_N_Q_A_S_M_KW:1', 'E:VERSION', 'T:FLOAT_NUMBER:1', 'T:SEMICOLON:1', 'X', 'X']
    if k == 'extern':
        return ['E:EXTERN_STMT', 'T:EXTERN_KW:1'] + NAME + ['E:TYPE_LIST', 'T:L_PAREN:1'] + \
            sep(s[1], lambda t: ['E:SCALAR_TYPE', 'E:SCALAR_TYPE', f'T:{TY[t]}:1', 'X', 'X'], 'T:COMMA:1') + ['T:R_PAREN:1', 'X',
            'E:RETURN_SIGNATURE', 'T:THIN_ARROW:2', 'E:SCALAR_TYPE', f'T:{TY[s[2]]}:1', 'X', 'X'] + SEMI
    if k == 'ret': return wrap('RETURN_EXPR', ['T:RETURN_KW:1'] + (xnodes(s[1]) if s[1] else []) + ['X'])
    if k == 'if':
        return ['E:IF_STMT', 'T:IF_KW:1', 'T:L_PAREN:1'] + xnodes(s[1]) + ['T:R_PAREN:1'] + bodynodes(s[2]) + \
            (['T:ELSE_KW:1'] + bodynodes(s[3]) if s[3] is not None else []) + ['X']
    if k == 'while': return ['E:WHILE_STMT', 'T:WHILE_KW:1', 'T:L_PAREN:1'] + xnodes(s[1]) + ['T:R_PAREN:1'] + bodynodes(s[2]) + ['X']
    if k == 'for':
        it = s[2]
        if it[0] in ('r2', 'r3'): itn = ['E:RANGE_EXPR', 'T:L_BRACK:1'] + sep(list(it[1:]), xnodes, 'T:COLON:1') + ['T:R_BRACK:1', 'X']
        elif it[0] == 'set': itn = ['E:SET_EXPRESSION', 'T:L_CURLY:1', 'E:EXPRESSION_LIST'] + itemsnodes(it[1]) + ['X', 'T:R_CURLY:1', 'X']
        else: itn = xnodes(it[1])
        return ['E:FOR_STMT', 'T:FOR_KW:1'] + tynodes(s[1], s[4]) + NAME + ['T:IN_KW:1', 'E:FOR_ITERABLE'] + itn + ['X'] + \
            bodynodes(s[3]) + ['X']
    if k == 'switch':
        return ['E:SWITCH_CASE_STMT', 'T:SWITCH_KW:1', 'T:L_PAREN:1'] + xnodes(s[1]) + ['T:R_PAREN:1', 'T:L_CURLY:1'] + \
            [t for (v, b) in s[2] for t in ['E:CASE_EXPR', 'T:CASE_KW:1', 'E:EXPRESSION_LIST'] + itemsnodes(v) + ['X'] + bnodes(b) + ['X']] + \
            (['T:DEFAULT_KW:1'] + bnodes(s[3]) if s[3] is not None else []) + ['T:R_CURLY:1', 'X']
    if k == 'block': return ['E:EXPR_STMT'] + bnodes(s[1]) + ['X']
    if k == 'gatedef':
        pl = ['E:PARAM_LIST', 'T:L_PAREN:1'] + pnodesn(s[1]) + ['T:R_PAREN:1', 'X'] if s[1] is not None else []
        return ['E:GATE', 'T:GATE_KW:1'] + NAME + pl + ['E:PARAM_LIST'] + pnodesn(s[2]) + ['X'] + bnodes(s[3]) + ['X']
    if k == 'def':
        tp = lambda p: ['E:TYPED_PARAM', 'E:SCALAR_TYPE', f'T:{PK[p]}:1', 'X'] + NAME + ['X']
        rs = ['E:RETURN_SIGNATURE', 'T:THIN_ARROW:2', 'E:SCALAR_TYPE', f'T:{TY[s[2]]}:1', 'X', 'X'] if s[2] else []
        return ['E:DEF', 'T:DEF_KW:1'] + NAME + ['E:TYPED_PARAM_LIST', 'T:L_PAREN:1'] + sep(s[1], tp, 'T:COMMA:1') + ['T:R_PAREN:1', 'X'] + rs + \
            bnodes(s[3]) + ['X']
    if k == 'cal': return ['E:CAL', 'T:CAL_KW:1'] + bnodes(s[1]) + ['X']

def main():
    global R
    n = int(sys.argv[1]) if len(sys.argv) > 1 else 300
    seed = int(sys.argv[2]) if len(sys.argv) > 2 else 1
    driver = os.environ.get('OQ3_DRIVER', '/verif/lean/.lake/build/bin/driver')
    R = random.Random(seed)
    progs = [rand_program(R.randint(0, 3)) for _ in range(n)]
    lines = [' '.join(t for s in p for t in stoks(s)) for p in progs]
    out = subprocess.run([driver, 'parse'], input='\n'.join(lines) + '\n', capture_output=True, text=True).stdout.splitlines()
    bad = 0
    for p, line, res in zip(progs, lines, out):
        want = ' '.join(['E:SOURCE_FILE'] + [t for s in p for t in snodes(s)] + ['X'])
        got = res.split('steps=')[1].split(';bal=')[0] if 'steps=' in res else res
        if got != want or ' R:' in res:
            bad += 1
            if bad <= 5: print('MISMATCH\n  input ', line, '\n  want  ', want, '\n  got   ', got)
    sizes = [len(l.split()) for l in lines]
    print(f'{n} programs (tokens: min {min(sizes)}, max {max(sizes)}, total {sum(sizes)}), {len(out)} results, {bad} mismatches')
    sys.exit(1 if bad or len(out) != n else 0)

main()
