#!/usr/bin/env python3
"""Generator of the proof SCRIPT sections of lean/Oq3/Props/C06.lean that push a property through
the 25-function mutual block of Oq3/Model/Sema.lean (the proofs themselves are checked by Lean).

This file holds the one thing all three generators share: `MUT`, the list (name, binders) of the
functions of the mutual block, in the order of Sema.lean.  IF A FUNCTION IS ADDED / RENAMED / GETS
A NEW ARGUMENT IN Sema.lean, UPDATE `MUT` HERE FIRST.

Run as a script it prints the `Frame` section of C06.lean (from `structure AllFrame` to
`theorem allFrame`): the append-only relation `Ext` through every function.  The hand-written
part (monad lemmas, `Frame` combinators, `frame_step` macro, the leaf-function `*_frame` lemmas)
is NOT generated; paste the output between the last leaf lemma (`mutateConstCheck_frame`) and
`/-! ### order -/`.

    python3 tools/gen_c06_frame.py > /tmp/frame_section.lean

Siblings: gen_c06_skel.py (`AllSk` / `skeleton_preserved*`), gen_c17_comm.py (`AllComm` /
`span_irrelevant`).
"""
MUT = [
 ("stmtToAsgStmt", "(s : Ast.Stmt)"),
 ("caseExprsLoop", "(cs : List Ast.CaseExpr)"),
 ("exprStmtToAsgStmt", "(e : Option Ast.Expr)"),
 ("modifiersLoop", "(ms : List Ast.Modifier)"),
 ("parenExprToAsgTexpr", "(p : Ast.ParenExpr)"),
 ("exprToAsgTexpr", "(e : Option Ast.Expr)"),
 ("setExpressionToAsgType", "(s : Ast.SetExpression)"),
 ("rangeExpressionToAsgType", "(r : Ast.RangeExpr)"),
 ("gateCallExprToAsgStmt", "(g : Ast.GateCallExpr) (ms : List GateModifier)"),
 ("callExprToAsgTexpr", "(sp : Ast.Span) (al : Option Ast.ArgList) (i : Option Ast.Identifier)"),
 ("gateOperandToAsgTexpr", "(g : Ast.GateOperand)"),
 ("indexOperatorToAsgType", "(i : Ast.IndexOperator)"),
 ("expressionListToAsgType", "(el : Ast.ExpressionList)"),
 ("qubitListToAsgTexpr", "(ql : Option Ast.QubitList)"),
 ("gateOperandsLoop", "(gs : List Ast.GateOperand)"),
 ("expressionListToAsgTexpr", "(el : Ast.ExpressionList)"),
 ("exprsLoop", "(es : List Ast.Expr)"),
 ("blockExprToAsgStmtList", "(b : Ast.BlockExpr)"),
 ("stmtsLoop", "(ss : List Ast.Stmt)"),
 ("blockExprToAsgType", "(b : Ast.BlockExpr)"),
 ("blockOrStmtToAsgType", "(b : Ast.BlockOrStmt)"),
 ("classicalDeclarationStatementToAsgStmt", "(sp : Ast.Span) (a : Bool) (st : Option Ast.ScalarType) (k : Bool) (n : Option Ast.Name) (e : Option Ast.Expr)"),
 ("assignmentStmtToAsgStmt", "(sp : Ast.Span) (i : Option Ast.Identifier) (rhs : Option Ast.Expr) (ii : Option Ast.IndexedIdentifier)"),
 ("indexedIdentifierToAsgType", "(ii : Ast.IndexedIdentifier)"),
 ("indexOperatorsLoop", "(ixs : List Ast.IndexOperator)"),
]
import re
def names(b):
    out=[]
    for m in re.finditer(r"\(([^:()]+):", b):
        out += m.group(1).split()
    return out

def gen(struct, pred, tac, ih, hb=1600000):
    """struct: name of the all-at-one-fuel structure; pred: e.g. 'Frame'; tac: closing tactic; ih: ih-macro name"""
    o=[]
    o.append(f"/-- all functions of the mutual block at one fuel level -/")
    o.append(f"structure {struct} (fuel : Nat) : Prop where")
    for n,b in MUT:
        o.append(f"  {n} : ∀ {b}, {pred} (Oq3.Sema.{n} fuel {' '.join(names(b))})")
    o.append("")
    alts=[f"with_reducible exact h_{n} {' '.join('_' for _ in names(b))}" for n,b in MUT]
    o.append("set_option hygiene false in")
    o.append(f"macro_rules | `(tactic| {ih}) => `(tactic| first\n  | "+"\n  | ".join(alts)+")\n")
    pat="⟨"+", ".join(f"h_{n}" for n,_ in MUT)+"⟩"
    for n,b in MUT:
        o.append(f"set_option maxHeartbeats {hb} in")
        o.append(f"theorem {n}_{pred.lower()}_step (fuel : Nat) (ih : {struct} fuel) {b} :")
        o.append(f"    {pred} (Oq3.Sema.{n} (fuel + 1) {' '.join(names(b))}) := by")
        o.append(f"  obtain {pat} := ih")
        o.append(f"  unfold Oq3.Sema.{n}; {tac}\n")
    o.append(f"theorem all{pred} (fuel : Nat) : {struct} fuel := by")
    o.append("  induction fuel with")
    o.append("  | zero =>")
    o.append("    constructor")
    for n,b in MUT:
        o.append(f"    · intros; unfold Oq3.Sema.{n}; {tac}")
    o.append("  | succ fuel ih =>")
    o.append("    constructor")
    for n,b in MUT:
        o.append(f"    · intros; exact {n}_{pred.lower()}_step fuel ih {' '.join('_' for _ in names(b))}")
    o.append("")
    return "\n".join(o)
if __name__ == "__main__":
    print(gen("AllFrame", "Frame", "frame", "frame_ih"))
