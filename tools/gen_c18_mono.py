import re
def names(b):
    r=[]
    for m in re.finditer(r"\(([^:()]+):",b): r+=m.group(1).split()
    return r
fns=[
 ("stmtToAsgStmt","(st : Ast.Stmt)"),("caseExprsLoop","(cs : List Ast.CaseExpr)"),("exprStmtToAsgStmt","(e : Option Ast.Expr)"),
 ("modifiersLoop","(ms : List Ast.Modifier)"),("parenExprToAsgTexpr","(p : Ast.ParenExpr)"),("exprToAsgTexpr","(e : Option Ast.Expr)"),
 ("setExpressionToAsgType","(se : Ast.SetExpression)"),("rangeExpressionToAsgType","(r : Ast.RangeExpr)"),
 ("gateCallExprToAsgStmt","(gc : Ast.GateCallExpr) (mods : List GateModifier)"),
 ("callExprToAsgTexpr","(sp : Ast.Span) (al : Option Ast.ArgList) (i : Option Ast.Identifier)"),
 ("gateOperandToAsgTexpr","(g : Ast.GateOperand)"),("indexOperatorToAsgType","(ix : Ast.IndexOperator)"),
 ("expressionListToAsgType","(el : Ast.ExpressionList)"),("qubitListToAsgTexpr","(ql : Option Ast.QubitList)"),
 ("gateOperandsLoop","(gs : List Ast.GateOperand)"),("expressionListToAsgTexpr","(el : Ast.ExpressionList)"),
 ("exprsLoop","(es : List Ast.Expr)"),("blockExprToAsgStmtList","(b : Ast.BlockExpr)"),("stmtsLoop","(ss : List Ast.Stmt)"),
 ("blockExprToAsgType","(b : Ast.BlockExpr)"),("blockOrStmtToAsgType","(b : Ast.BlockOrStmt)"),
 ("classicalDeclarationStatementToAsgStmt","(sp : Ast.Span) (arr : Bool) (st : Option Ast.ScalarType) (ct : Bool) (n : Option Ast.Name) (e : Option Ast.Expr)"),
 ("assignmentStmtToAsgStmt","(sp : Ast.Span) (i : Option Ast.Identifier) (rhs : Option Ast.Expr) (ii : Option Ast.IndexedIdentifier)"),
 ("indexedIdentifierToAsgType","(ii : Ast.IndexedIdentifier)"),("indexOperatorsLoop","(ixs : List Ast.IndexOperator)"),
]
o=[]
o.append('''/-
C18, auxiliary — fuel monotonicity of the semantic pass.

`Le x y`: every successful run of `x` is a run of `y` with the same result.  For each of the
twenty-five functions `f` of the mutual block of `Sema.lean`: `Le (f fuel a) (f (fuel + 1) a)`
(`allMono`, one `_mono` lemma per function by a proof script that walks the two bodies — which
differ only in the fuel passed to the recursive calls — in lock step, then induction on fuel);
hence `f fuel a c = .ok r → fuel ≤ fuel' → f fuel' a c = .ok r` (`stmtToAsgStmt_mono`,
`syntaxToSemanticLoop_mono`).

GENERATED proof script (list of functions and binders only; the proofs are checked by Lean).
-/
import Lean
import Oq3.Props.C18Frame

namespace Oq3.C18E
open Oq3 Oq3.Types Oq3.Symbols Oq3.Sema

/-- every successful run of `x` is a run of `y`, with the same result and final context -/
structure Le {α} (x y : M α) : Prop where
  run : ∀ c r, x c = .ok r → y c = .ok r

theorem Le.refl {α} (x : M α) : Le x x := ⟨fun _ _ h => h⟩

theorem Le.trans {α} {x y z : M α} (h1 : Le x y) (h2 : Le y z) : Le x z :=
  ⟨fun c r h => h2.run c r (h1.run c r h)⟩

theorem Le.bind {α β} {x y : M α} {f g : α → M β} (hx : Le x y) (hf : ∀ a, Le (f a) (g a)) :
    Le (x >>= f) (y >>= g) := by
  refine ⟨fun c r h => ?_⟩
  rw [bind_run] at h ⊢
  cases hxc : x c with
  | error e => rw [hxc] at h; cases h
  | ok p =>
    obtain ⟨a, c1⟩ := p
    rw [hxc] at h
    rw [hx.run c _ hxc]
    exact (hf a).run c1 r h

theorem Le.throw_left {α} (o : Outcome) (y : M α) : Le (throw o : M α) y :=
  ⟨fun c r h => by cases h⟩

theorem Le.fail_left {α} (site : String) (y : M α) : Le (Sema.fail site : M α) y :=
  ⟨fun c r h => by cases h⟩

theorem Le.withScope {α} (k : ScopeType) {b1 b2 : M α} (h : Le b1 b2) :
    Le (Sema.withScope k b1) (Sema.withScope k b2) := by
  unfold Sema.withScope
  exact Le.bind (Le.refl _) (fun _ => Le.bind h (fun _ => Le.refl _))

open Lean Elab Tactic Meta in
/-- the two programs of a goal `Le x y` -/
def leProgs (g : MVarId) : MetaM (Option (Lean.Expr × Lean.Expr)) := do
  let t ← instantiateMVars (← g.getType)
  let t := t.consumeMData
  if t.isAppOfArity ``Le 3 then
    return some ((t.getArg! 1).consumeMData, (t.getArg! 2).consumeMData)
  else return none

open Lean Elab Tactic Meta in
/-- the two programs are syntactically the same (no recursive call inside) -/
elab "le_same" : tactic => withMainContext do
  match ← leProgs (← getMainGoal) with
  | some (x, y) => if x == y then pure () else throwError "different"
  | none => throwError "not a Le goal"

open Lean Elab Tactic Meta in
elab "le_head " id:ident : tactic => withMainContext do
  let n ← realizeGlobalConstNoOverloadWithInfo id
  match ← leProgs (← getMainGoal) with
  | some (x, _) =>
    match x.getAppFn.consumeMData with
    | Lean.Expr.const m _ => if m == n then pure () else throwError "head"
    | _ => throwError "head"
  | none => throwError "not a Le goal"

open Lean Elab Tactic Meta in
def isSplitHead (x : Lean.Expr) : MetaM Bool := do
  match x.getAppFn.consumeMData with
  | Lean.Expr.const m _ =>
    if m == ``ite || m == ``dite then return true
    else return (← isMatcher m)
  | _ => return false

open Lean Elab Tactic Meta in
elab "le_is_split" : tactic => withMainContext do
  match ← leProgs (← getMainGoal) with
  | some (x, _) => if ← isSplitHead x then pure () else throwError "not a split"
  | none => throwError "not a Le goal"

open Lean Elab Tactic Meta in
elab "le_is_split_right" : tactic => withMainContext do
  match ← leProgs (← getMainGoal) with
  | some (_, y) => if ← isSplitHead y then pure () else throwError "not a split"
  | none => throwError "not a Le goal"

open Lean Elab Tactic Meta in
/-- close the goal from a hypothesis `∀ xs, a = b → False` whose equation holds by `rfl`
(a branch of a `match` excluded by an earlier pattern) -/
elab "le_absurd" : tactic => withMainContext do
  let g ← getMainGoal
  for ldecl in ← getLCtx do
    if ldecl.isImplementationDetail then continue
    let t ← instantiateMVars ldecl.type
    if !t.isForall then continue
    let ok ← commitWhen do
      let (args, _, body) ← forallMetaTelescopeReducing t
      if !(body.isConstOf ``False) || args.size == 0 then return false
      let last := args.back!
      let lt ← instantiateMVars (← inferType last)
      match lt.eq? with
      | some (_, a, b) =>
        if ← isDefEq a b then
          last.mvarId!.assign (← mkEqRefl a)
          let prf := mkAppN ldecl.toExpr args
          let prf ← instantiateMVars prf
          if prf.hasExprMVar then return false
          g.assign (← mkFalseElim (← g.getType) prf)
          return true
        else return false
      | none => return false
    if ok then
      replaceMainGoal []
      return
  throwError "no absurd hypothesis"

syntax "le_lemma" : tactic
macro_rules | `(tactic| le_lemma) => `(tactic| fail "no lemma")
syntax "le_ih" : tactic
macro_rules | `(tactic| le_ih) => `(tactic| fail "no ih")

macro "le_step" : tactic => `(tactic| first
  | (cases ‹_ + 1 = Nat.succ _›)
  | (exact absurd ‹_ + 1 = 0› (Nat.succ_ne_zero _))
  | le_absurd
  | (le_same; exact Le.refl _)
  | (le_head throw; exact Le.throw_left _ _)
  | (le_head Sema.fail; exact Le.fail_left _ _)
  | (le_head Sema.withScope; with_reducible apply Le.withScope)
  | le_lemma
  | le_ih
  | (le_head Bind.bind; with_reducible apply Le.bind)
  | intro _
  | dsimp only
  | (le_is_split; split)
  | (le_is_split_right; split))

macro "le" : tactic => `(tactic| repeat' le_step)
''')
o.append("/-- all twenty-five functions of the mutual block: one more unit of fuel changes nothing -/")
o.append("structure AllMono (fuel : Nat) : Prop where")
for n,b in fns:
    o.append(f"  {n} : ∀ {b}, Le (Sema.{n} fuel {' '.join(names(b))}) (Sema.{n} (fuel + 1) {' '.join(names(b))})")
o.append("")
alts=[f"(le_head Sema.{n}; exact m_{n} {' '.join('_' for _ in names(b))})" for n,b in fns]
o.append("set_option hygiene false in")
o.append("macro_rules | `(tactic| le_ih) => `(tactic| first\n  | "+"\n  | ".join(alts)+")\n")
pat="⟨"+", ".join(f"m_{n}" for n,_ in fns)+"⟩"
for n,b in fns:
    a=' '.join(names(b))
    o.append("set_option maxHeartbeats 1600000 in")
    o.append(f"theorem {n}_mono (fuel : Nat) (ih : AllMono fuel) {b} :")
    o.append(f"    Le (Sema.{n} (fuel + 1) {a}) (Sema.{n} (fuel + 1 + 1) {a}) := by")
    o.append(f"  obtain {pat} := ih")
    o.append(f"  unfold Sema.{n}; le\n")
o.append("theorem allMono (fuel : Nat) : AllMono fuel := by")
o.append("  induction fuel with")
o.append("  | zero =>")
o.append("    constructor")
for n,b in fns:
    o.append(f"    · intros; conv => lhs; unfold Sema.{n}")
    o.append(f"      exact Le.throw_left _ _")
o.append("  | succ fuel ih =>")
o.append("    constructor")
for n,b in fns:
    o.append(f"    · intros; exact {n}_mono fuel ih {' '.join('_' for _ in names(b))}")
o.append('''
/-- more fuel never changes a successful run (any of the twenty-five functions; stated for the
statement function) -/
theorem stmtToAsgStmt_mono_le {fuel fuel' : Nat} (h : fuel ≤ fuel') (st : Ast.Stmt) :
    Le (Sema.stmtToAsgStmt fuel st) (Sema.stmtToAsgStmt fuel' st) := by
  induction h with
  | refl => exact Le.refl _
  | step _ ih => exact ih.trans ((allMono _).stmtToAsgStmt st)

theorem syntaxToSemanticLoop_mono_step (fuel : Nat) (ss : List Ast.Stmt) :
    Le (Sema.syntaxToSemanticLoop fuel ss) (Sema.syntaxToSemanticLoop (fuel + 1) ss) := by
  induction fuel generalizing ss with
  | zero => conv => lhs; unfold Sema.syntaxToSemanticLoop
            exact Le.throw_left _ _
  | succ fuel ih =>
    have m_stmt := (allMono fuel).stmtToAsgStmt
    unfold Sema.syntaxToSemanticLoop
    repeat' first
      | (le_head Sema.stmtToAsgStmt; exact m_stmt _)
      | (le_head Sema.syntaxToSemanticLoop; exact ih _)
      | le_step

/-- the top-level loop: more fuel never changes a successful run -/
theorem syntaxToSemanticLoop_mono {fuel fuel' : Nat} (h : fuel ≤ fuel') (ss : List Ast.Stmt) :
    Le (Sema.syntaxToSemanticLoop fuel ss) (Sema.syntaxToSemanticLoop fuel' ss) := by
  induction h with
  | refl => exact Le.refl _
  | step _ ih => exact ih.trans (syntaxToSemanticLoop_mono_step _ ss)

end Oq3.C18E
''')
open(__import__('os').path.join(__import__('os').path.dirname(__import__('os').path.dirname(__import__('os').path.abspath(__file__))),'lean','Oq3','Props','C18Mono.lean'),'w').write("\n".join(o))
