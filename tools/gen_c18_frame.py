import re
def names(b):
    r=[]
    for m in re.finditer(r"\(([^:()]+):",b): r+=m.group(1).split()
    return r
o=[]
o.append('''/-
C18, step 1 — the diagnostics list is WRITE-ONLY for the semantic pass.

`ErrFrame x`: running `x` from a context `c` is running it from `c` with the diagnostics erased and
then putting `c`'s diagnostics back in front (`x c = lift c.semanticErrors (x (eraseErrs c))`).
It holds for every primitive of `SemaCtx.lean` (`insertError` is the only writer, nothing reads
`semanticErrors`), is closed under `>>=`, and is pushed through the twenty-five functions of the
mutual block of `Sema.lean` by a proof script (one `_frame` lemma per function, induction on fuel).
`ErrFrame.two_runs` is the relational (two-run) reading.

GENERATED proof script (list of functions and binders only; the proofs are checked by Lean).
-/
import Lean
import Oq3.Model.Sema

namespace Oq3.C18E
open Oq3 Oq3.Types Oq3.Symbols Oq3.Sema

/-- the context with the diagnostics erased -/
def eraseErrs (c : Ctx) : Ctx := { c with semanticErrors := [] }

/-- the context with `es` put in front of its diagnostics -/
def withErrs (es : List SemErr) (c : Ctx) : Ctx := { c with semanticErrors := es ++ c.semanticErrors }

/-- put `es` in front of the diagnostics of a result -/
def lift {α} (es : List SemErr) : Except Outcome (α × Ctx) → Except Outcome (α × Ctx)
  | .ok (a, c) => .ok (a, withErrs es c)
  | .error e => .error e

@[simp] theorem eraseErrs_withErrs (es : List SemErr) (c : Ctx) : eraseErrs (withErrs es c) = eraseErrs c := rfl
@[simp] theorem eraseErrs_eraseErrs (c : Ctx) : eraseErrs (eraseErrs c) = eraseErrs c := rfl
@[simp] theorem withErrs_withErrs (a b : List SemErr) (c : Ctx) :
    withErrs a (withErrs b c) = withErrs (a ++ b) c := by
  simp [withErrs, List.append_assoc]
@[simp] theorem withErrs_eraseErrs (c : Ctx) : withErrs c.semanticErrors (eraseErrs c) = c := by
  cases c; simp [withErrs, eraseErrs]
@[simp] theorem withErrs_errs (es : List SemErr) (c : Ctx) :
    (withErrs es c).semanticErrors = es ++ c.semanticErrors := rfl
@[simp] theorem eraseErrs_errs (c : Ctx) : (eraseErrs c).semanticErrors = [] := rfl
theorem withErrs_nil (c : Ctx) : withErrs [] c = c := by cases c; simp [withErrs]

theorem lift_lift {α} (a b : List SemErr) (r : Except Outcome (α × Ctx)) :
    lift a (lift b r) = lift (a ++ b) r := by
  cases r with
  | error e => rfl
  | ok p => obtain ⟨x, c⟩ := p; simp [lift]

/-- `x` neither reads the diagnostics nor does anything to them but append -/
structure ErrFrame {α} (x : M α) : Prop where
  run : ∀ c, x c = lift c.semanticErrors (x (eraseErrs c))

/-- `>>=` on results -/
def bindRes {α β} (r : Except Outcome (α × Ctx)) (f : α → M β) : Except Outcome (β × Ctx) :=
  match r with
  | .ok (a, c) => f a c
  | .error e => .error e

theorem bind_run {α β} (x : M α) (f : α → M β) (c : Ctx) : (x >>= f) c = bindRes (x c) f := by
  show StateT.bind x f c = _
  unfold StateT.bind bindRes
  simp only [bind, Except.bind]
  cases x c with
  | error e => rfl
  | ok p => rfl

theorem pure_run {α} (a : α) (c : Ctx) : (Pure.pure a : M α) c = .ok (a, c) := rfl
theorem get_run (c : Ctx) : (get : M Ctx) c = .ok (c, c) := rfl
theorem set_run (s c : Ctx) : (set s : M PUnit) c = .ok (⟨⟩, s) := rfl
theorem modify_run (f : Ctx → Ctx) (c : Ctx) : (modify f : M PUnit) c = .ok (⟨⟩, f c) := rfl
theorem fail_run {α} (site : String) (c : Ctx) : (Sema.fail site : M α) c = .error (.panic site) := rfl
theorem throw_run {α} (o : Outcome) (c : Ctx) : (throw o : M α) c = .error o := rfl

theorem ErrFrame.pure {α} (a : α) : ErrFrame (Pure.pure a : M α) :=
  ⟨fun c => by simp [pure_run, lift]⟩

theorem ErrFrame.fail {α} (site : String) : ErrFrame (Sema.fail site : M α) := ⟨fun _ => rfl⟩

theorem ErrFrame.throw {α} (o : Outcome) : ErrFrame (throw o : M α) := ⟨fun _ => rfl⟩

theorem ErrFrame.bind {α β} {x : M α} {f : α → M β} (hx : ErrFrame x) (hf : ∀ a, ErrFrame (f a)) :
    ErrFrame (x >>= f) := by
  refine ⟨fun c => ?_⟩
  rw [bind_run, bind_run, hx.run c]
  cases x (eraseErrs c) with
  | error e => rfl
  | ok p =>
    obtain ⟨a, c1⟩ := p
    simp only [lift, bindRes]
    rw [(hf a).run (withErrs c.semanticErrors c1), (hf a).run c1]
    simp only [eraseErrs_withErrs, withErrs_errs]
    cases f a (eraseErrs c1) with
    | error e => rfl
    | ok q => obtain ⟨b, c2⟩ := q; simp [lift]

theorem ErrFrame.unwrap {α} (site : String) (o : Option α) : ErrFrame (Sema.unwrap site o) := by
  cases o with
  | none => exact ErrFrame.fail _
  | some a => exact ErrFrame.pure a

theorem ErrFrame.insertError (k : SemanticErrorKind) (node : Ast.Span) :
    ErrFrame (Sema.insertError k node) :=
  ⟨fun c => by simp [Sema.insertError, modify_run, lift, withErrs, eraseErrs]⟩

/-- a computation whose outcome and state change are functions of the erased context -/
theorem ErrFrame.of_erased {α} {x : M α}
    (h : ∀ c, x c = match x (eraseErrs c) with
      | .ok (a, c1) => .ok (a, { c1 with semanticErrors := c.semanticErrors ++ c1.semanticErrors })
      | .error e => .error e) : ErrFrame x :=
  ⟨fun c => by rw [h c]; cases x (eraseErrs c) with
    | error e => rfl
    | ok p => rfl⟩

theorem ErrFrame.symStep (site : String) (op : Op) : ErrFrame (Sema.symStep site op) := by
  refine ⟨fun c => ?_⟩
  simp only [Sema.symStep, bind_run, get_run, bindRes]
  show _ = lift _ (match ((eraseErrs c).symbolTable.step op).2 with | _ => _)
  have : (eraseErrs c).symbolTable = c.symbolTable := rfl
  cases h : (c.symbolTable.step op).2 <;>
    simp [h, fail_run, set_run, pure_run, bind_run, bindRes, lift, withErrs, eraseErrs]

theorem ErrFrame.currentScopeType : ErrFrame Sema.currentScopeType := by
  refine ⟨fun c => ?_⟩
  simp only [Sema.currentScopeType, bind_run, get_run, bindRes]
  have : (eraseErrs c).symbolTable = c.symbolTable := rfl
  rw [this]
  cases c.symbolTable.stack <;> simp [fail_run, pure_run, lift]

theorem ErrFrame.insertConstValue (id : Nat) (v : TExpr) : ErrFrame (Sema.insertConstValue id v) :=
  ⟨fun c => by simp [Sema.insertConstValue, modify_run, lift, withErrs, eraseErrs]⟩

theorem ErrFrame.getConstValue (id : Nat) : ErrFrame (Sema.getConstValue id) :=
  ⟨fun c => by
    simp only [Sema.getConstValue, bind_run, get_run, bindRes, pure_run, lift]
    cases c; simp [eraseErrs, withErrs]⟩

theorem ErrFrame.pushAnnotation (a : String) : ErrFrame (Sema.pushAnnotation a) :=
  ⟨fun c => by simp [Sema.pushAnnotation, modify_run, lift, withErrs, eraseErrs]⟩

theorem ErrFrame.annotationsIsEmpty : ErrFrame Sema.annotationsIsEmpty :=
  ⟨fun c => by
    simp only [Sema.annotationsIsEmpty, bind_run, get_run, bindRes, pure_run, lift]
    cases c; simp [eraseErrs, withErrs]⟩

theorem ErrFrame.takeAnnotations : ErrFrame Sema.takeAnnotations :=
  ⟨fun c => by
    simp only [Sema.takeAnnotations, bind_run, get_run, set_run, bindRes, pure_run, lift]
    simp [eraseErrs, withErrs]⟩

theorem ErrFrame.insertStmt (s : Stmt) : ErrFrame (Sema.insertStmt s) :=
  ⟨fun c => by simp [Sema.insertStmt, modify_run, lift, withErrs, eraseErrs]⟩

open Lean Elab Tactic Meta in
/-- the program `x` of a goal `ErrFrame x` -/
def efProgram (g : MVarId) : MetaM (Option Lean.Expr) := do
  let t ← instantiateMVars (← g.getType)
  let t := t.consumeMData
  if t.isAppOfArity ``ErrFrame 2 then return some (t.getArg! 1).consumeMData else return none

open Lean Elab Tactic Meta in
/-- cheap guard: the head symbol of the program of the goal -/
elab "ef_head " id:ident : tactic => withMainContext do
  let n ← realizeGlobalConstNoOverloadWithInfo id
  match ← efProgram (← getMainGoal) with
  | some x =>
    match x.getAppFn.consumeMData with
    | Lean.Expr.const m _ => if m == n then pure () else throwError "head"
    | _ => throwError "head"
  | none => throwError "not an ErrFrame goal"

open Lean Elab Tactic Meta in
elab "ef_is_split" : tactic => withMainContext do
  match ← efProgram (← getMainGoal) with
  | some x =>
    match x.getAppFn.consumeMData with
    | Lean.Expr.const m _ =>
      if m == ``ite || m == ``dite then pure ()
      else if (← isMatcher m) then pure ()
      else throwError "not a split"
    | _ => throwError "not a split"
  | none => throwError "not an ErrFrame goal"

syntax "ef_lemma" : tactic
macro_rules | `(tactic| ef_lemma) => `(tactic| fail "no lemma")
syntax "ef_ih" : tactic
macro_rules | `(tactic| ef_ih) => `(tactic| fail "no ih")

macro "ef_step" : tactic => `(tactic| first
  | (cases ‹_ + 1 = Nat.succ _›)
  | (ef_head Sema.fail; exact ErrFrame.fail _)
  | (ef_head throw; exact ErrFrame.throw _)
  | (ef_head Sema.unwrap; exact ErrFrame.unwrap _ _)
  | (ef_head Pure.pure; exact ErrFrame.pure _)
  | (ef_head Sema.insertError; exact ErrFrame.insertError _ _)
  | (ef_head Sema.symStep; exact ErrFrame.symStep _ _)
  | (ef_head Sema.currentScopeType; exact ErrFrame.currentScopeType)
  | (ef_head Sema.insertConstValue; exact ErrFrame.insertConstValue _ _)
  | (ef_head Sema.getConstValue; exact ErrFrame.getConstValue _)
  | (ef_head Sema.pushAnnotation; exact ErrFrame.pushAnnotation _)
  | (ef_head Sema.annotationsIsEmpty; exact ErrFrame.annotationsIsEmpty)
  | (ef_head Sema.takeAnnotations; exact ErrFrame.takeAnnotations)
  | (ef_head Sema.insertStmt; exact ErrFrame.insertStmt _)
  | ef_lemma
  | ef_ih
  | (ef_head Bind.bind; with_reducible apply ErrFrame.bind)
  | intro _
  | (ef_is_split; split)
  | dsimp only)

macro "ef" : tactic => `(tactic| repeat' ef_step)

theorem ErrFrame.withScope {α} (k : ScopeType) {body : M α} (h : ErrFrame body) :
    ErrFrame (Sema.withScope k body) := by
  unfold Sema.withScope Sema.enterScope Sema.exitScope
  refine ErrFrame.bind (ErrFrame.bind (ErrFrame.symStep _ _) (fun _ => ErrFrame.pure _)) (fun _ => ?_)
  refine ErrFrame.bind h (fun a => ?_)
  exact ErrFrame.bind (ErrFrame.bind (ErrFrame.symStep _ _) (fun _ => ErrFrame.pure _))
    (fun _ => ErrFrame.pure _)
macro_rules | `(tactic| ef_lemma) => `(tactic| (ef_head Sema.withScope; apply ErrFrame.withScope))

theorem ErrFrame.redeclLoop (node : Ast.Span) (ns : List String) : ErrFrame (Sema.redeclLoop node ns) := by
  induction ns with
  | nil => unfold Sema.redeclLoop; ef
  | cons n ns ih =>
    unfold Sema.redeclLoop
    exact ErrFrame.bind (ErrFrame.insertError _ _) (fun _ => ih)

attribute [local irreducible] SymTab.standardLibraryGates in
theorem ErrFrame.standardLibraryGates (node : Ast.Span) : ErrFrame (Sema.standardLibraryGates node) := by
  refine ⟨fun c => ?_⟩
  simp only [Sema.standardLibraryGates, bind_run, get_run, set_run, bindRes]
  have h := (ErrFrame.redeclLoop node (c.symbolTable.standardLibraryGates).2).run
    { c with symbolTable := (c.symbolTable.standardLibraryGates).1 }
  exact h
macro_rules | `(tactic| ef_lemma) => `(tactic| (ef_head Sema.standardLibraryGates; exact ErrFrame.standardLibraryGates _))
''')
simple=[
("enterScope","(k : ScopeType)"),("exitScope",""),("inGlobalScope",""),
("newBinding","(name : String) (typ : T) (node : Ast.Span)"),("tableLookup","(name : String)"),
("lookupSymbol","(name : String) (node : Ast.Span)"),("lookupGateSymbol","(name : String) (node : Ast.Span)"),
("notImpl","(node : Ast.Span)"),("binaryOpToAsgType","(op : Ast.BinaryOp)"),
("intNumberValue","(site text : String)"),("negativeFloatNumberToAsgType","(fmt : Option String)"),
("negativeIntToAsgType","(text : String)"),("literalToAsgTexpr","(l : Ast.Literal)"),
("lookupIdentifier","(i : Ast.Identifier)"),("designatorToAsg","(d : Option Ast.Designator)"),
("scalarTypeToType","(st : Ast.ScalarType) (isconst : Bool)"),("paramTypeToType","(pt : Ast.ParamType) (isconst : Bool)"),
("declareClassicalHelper","(sym : SymbolIdResult) (init : Option TExpr)"),
("ioDeclarationStatementToAsgStmt","(a : Bool) (st : Option Ast.ScalarType) (n : Option Ast.Name) (i : Bool)"),
("BINDPARAMS",""),
("bindParameterList","(pl : Option Ast.ParamList) (typ : T)"),
("BINDTYPED",""),
("bindTypedParameterList","(pl : Option Ast.TypedParamList)"),
("notGlobalCheck","(node : Ast.Span)"),("gateNotGlobalCheck","(name : Option Ast.Name)"),
("returnGlobalCheck","(node : Ast.Span)"),("delayDurationCheck","(d : TExpr) (n : Ast.Span)"),
("quantumBinopCheck","(l r : TExpr) (a b : Option Ast.Expr)"),
("gateOperandIdentCheck","(t : T) (n : Ast.Span)"),("gateOperandIndexedCheck","(t : T) (n : Ast.Span)"),
("gateCallCheck","(sp : Ast.Span) (q : Option Ast.QubitList) (al : Option Ast.ArgList) (g : Ast.Identifier) (sr : SymbolIdResult) (gt : T) (np nq : Nat)"),
("defArityCheck","(a b : Nat) (al : Option Ast.ArgList)"),("mutateConstCheck","(ok : Bool) (t : T) (n : Ast.Span)"),
]
for n,b in simple:
    if n=="BINDPARAMS":
        o.append('''theorem ErrFrame.bindParams (typ : T) (ps : List Ast.Param) : ErrFrame (Sema.bindParams typ ps) := by
  induction ps with
  | nil => unfold Sema.bindParams; ef
  | cons p ps ih =>
    unfold Sema.bindParams
    exact ErrFrame.bind (ErrFrame.newBinding _ _ _) (fun _ => ErrFrame.bind ih (fun _ => ErrFrame.pure _))
macro_rules | `(tactic| ef_lemma) => `(tactic| (ef_head Sema.bindParams; exact ErrFrame.bindParams _ _))
''')
        continue
    if n=="BINDTYPED":
        o.append('''macro_rules | `(tactic| ef_lemma) => `(tactic|
  (ef_head Sema.bindTypedParams; exact ‹ErrFrame (Sema.bindTypedParams _)›))
theorem ErrFrame.bindTypedParams (ps : List Ast.TypedParam) : ErrFrame (Sema.bindTypedParams ps) := by
  induction ps with
  | nil => unfold Sema.bindTypedParams; ef
  | cons p ps ih => unfold Sema.bindTypedParams; ef
macro_rules | `(tactic| ef_lemma) => `(tactic| (ef_head Sema.bindTypedParams; exact ErrFrame.bindTypedParams _))
''')
        continue
    ns=names(b)
    o.append(f"theorem ErrFrame.{n} {b} : ErrFrame (Sema.{n} {' '.join(ns)}) := by\n  unfold Sema.{n}; ef")
    o.append(f"macro_rules | `(tactic| ef_lemma) => `(tactic| (ef_head Sema.{n}; exact ErrFrame.{n} {' '.join('_' for _ in ns)}))\n")
fns=[
 ("stmtToAsgStmt","(st : Ast.Stmt)"),("caseExprsLoop","(cs : List Ast.CaseExpr)"),("exprStmtToAsgStmt","(e : Option Ast.Expr)"),
 ("modifiersLoop","(ms : List Ast.Modifier)"),("parenExprToAsgTexpr","(p : Ast.ParenExpr)"),("exprToAsgTexpr","(e : Option Ast.Expr)"),
 ("setExpressionToAsgType","(se : Ast.SetExpression)"),("rangeExpressionToAsgType","(r : Ast.RangeExpr)"),
 ("gateCallExprToAsgStmt","(gc : Ast.GateCallExpr) (mods : List GateModifier)"),
 ("callExprToAsgTexpr","(sp : Ast.Span) (al : Option Ast.ArgList) (i : Option Ast.Identifier)"),
 ("gateOperandToAsgTexpr","(g : Ast.GateOperand)"),("indexOperatorToAsgType","(ix : Ast.IndexOperator)"),
 ("expressionListToAsgType","(el : Ast.ExpressionList)"),("qubitListToAsgTexpr","(ql : Option Ast.QubitList)"),
 ("gateOperandsLoop","(gs : List Ast.GateOperand)"),("expressionListToAsgTexpr","(el : Ast.ExpressionList)"),
 ("exprsLoop","(es : List Ast.Expr)"),("blockExprToAsgStmtList","(b : Ast.BlockExpr)"),("stmtsLoop","(ss : List Ast.Stmt)"),
 ("blockExprToAsgType","(b : Ast.BlockExpr)"),("blockOrStmtToAsgType","(b : Ast.BlockOrStmt)"),
 ("classicalDeclarationStatementToAsgStmt","(sp : Ast.Span) (arr : Bool) (st : Option Ast.ScalarType) (ct : Bool) (n : Option Ast.Name) (e : Option Ast.Expr)"),
 ("assignmentStmtToAsgStmt","(sp : Ast.Span) (i : Option Ast.Identifier) (rhs : Option Ast.Expr) (ii : Option Ast.IndexedIdentifier)"),
 ("indexedIdentifierToAsgType","(ii : Ast.IndexedIdentifier)"),("indexOperatorsLoop","(ixs : List Ast.IndexOperator)"),
]
o.append("/-- all twenty-five functions of the mutual block at one fuel level -/")
o.append("structure AllFrame (fuel : Nat) : Prop where")
for n,b in fns:
    o.append(f"  {n} : ∀ {b}, ErrFrame (Sema.{n} fuel {' '.join(names(b))})")
o.append("")
alts=[f"(ef_head Sema.{n}; exact e_{n} {' '.join('_' for _ in names(b))})" for n,b in fns]
o.append("set_option hygiene false in")
o.append("macro_rules | `(tactic| ef_ih) => `(tactic| first\n  | "+"\n  | ".join(alts)+")\n")
pat="⟨"+", ".join(f"e_{n}" for n,_ in fns)+"⟩"
for n,b in fns:
    o.append("set_option maxHeartbeats 1600000 in")
    o.append(f"theorem {n}_frame (fuel : Nat) (ih : AllFrame fuel) {b} :")
    o.append(f"    ErrFrame (Sema.{n} (fuel + 1) {' '.join(names(b))}) := by")
    o.append(f"  obtain {pat} := ih")
    o.append(f"  unfold Sema.{n}; ef\n")
o.append("theorem allFrame (fuel : Nat) : AllFrame fuel := by")
o.append("  induction fuel with")
o.append("  | zero =>")
o.append("    constructor")
for n,b in fns:
    o.append(f"    · intros; unfold Sema.{n}; exact ErrFrame.throw _")
o.append("  | succ fuel ih =>")
o.append("    constructor")
for n,b in fns:
    o.append(f"    · intros; exact {n}_frame fuel ih {' '.join('_' for _ in names(b))}")
o.append('''
/-- **the relational (two-run) reading.**  Two contexts that differ only in their diagnostics:
same outcome; on success the same result, final contexts that again differ only in their
diagnostics, and ONE list of new diagnostics appended in both runs; on failure the same failure. -/
theorem ErrFrame.two_runs {α} {x : M α} (hx : ErrFrame x) (c d : Ctx) (h : eraseErrs c = eraseErrs d) :
    (∀ a c', x c = .ok (a, c') → ∃ d' n, x d = .ok (a, d') ∧ eraseErrs c' = eraseErrs d' ∧
      c'.semanticErrors = c.semanticErrors ++ n ∧ d'.semanticErrors = d.semanticErrors ++ n) ∧
    (∀ o, x c = .error o → x d = .error o) := by
  rw [hx.run c, hx.run d, h]
  cases x (eraseErrs d) with
  | error e => exact ⟨fun _ _ hh => (by cases hh), fun o hh => hh⟩
  | ok p =>
    obtain ⟨a, e'⟩ := p
    refine ⟨fun a' c' hh => ?_, fun o hh => (by cases hh)⟩
    simp only [lift, Except.ok.injEq, Prod.mk.injEq] at hh
    obtain ⟨rfl, rfl⟩ := hh
    exact ⟨_, e'.semanticErrors, rfl, rfl, rfl, rfl⟩

/-- the two-run statement for the statement function (likewise for the other twenty-four:
`((allFrame fuel).f args).two_runs`) -/
theorem stmtToAsgStmt_two_runs (fuel : Nat) (st : Ast.Stmt) (c d : Ctx)
    (h : eraseErrs c = eraseErrs d) :
    (∀ a c', Sema.stmtToAsgStmt fuel st c = .ok (a, c') → ∃ d' n,
      Sema.stmtToAsgStmt fuel st d = .ok (a, d') ∧ eraseErrs c' = eraseErrs d' ∧
      c'.semanticErrors = c.semanticErrors ++ n ∧ d'.semanticErrors = d.semanticErrors ++ n) ∧
    (∀ o, Sema.stmtToAsgStmt fuel st c = .error o → Sema.stmtToAsgStmt fuel st d = .error o) :=
  ((allFrame fuel).stmtToAsgStmt st).two_runs c d h

/-- the statement function, for every fuel -/
theorem stmtToAsgStmt_errFrame (fuel : Nat) (st : Ast.Stmt) : ErrFrame (Sema.stmtToAsgStmt fuel st) :=
  (allFrame fuel).stmtToAsgStmt st

/-- the top-level loop of `syntax_to_semantic` -/
theorem syntaxToSemanticLoop_errFrame (fuel : Nat) (ss : List Ast.Stmt) :
    ErrFrame (Sema.syntaxToSemanticLoop fuel ss) := by
  induction fuel generalizing ss with
  | zero => unfold Sema.syntaxToSemanticLoop; exact ErrFrame.throw _
  | succ fuel ih =>
    have e_stmt := (allFrame fuel).stmtToAsgStmt
    cases ss with
    | nil => unfold Sema.syntaxToSemanticLoop; exact ErrFrame.pure _
    | cons s rest =>
      have := ih rest
      unfold Sema.syntaxToSemanticLoop
      repeat' first
        | (ef_head Sema.stmtToAsgStmt; exact e_stmt _)
        | (ef_head Sema.syntaxToSemanticLoop; exact ‹ErrFrame (Sema.syntaxToSemanticLoop _ _)›)
        | ef_step

end Oq3.C18E
''')
open(__import__('os').path.join(__import__('os').path.dirname(__import__('os').path.dirname(__import__('os').path.abspath(__file__))),'lean','Oq3','Props','C18Frame.lean'),'w').write("\n".join(o))
