#!/usr/bin/env python3
"""Generates Oq3/Props/C12SemaGen.lean: every function of the semantic model appends only diagnostics
whose range is a range of its AST argument(s) (`ErrIn`, Props/C12SemaSpans.lean) — the non-recursive
functions of Model/SemaCtx.lean one by one, the 25 functions of the mutual block of Model/Sema.lean
by induction on the fuel.  The script only enumerates names and binders; Lean checks the proofs."""
import re, os
root = os.path.dirname(os.path.dirname(os.path.abspath(__file__)))
sema = open(os.path.join(root, "lean/Oq3/Model/Sema.lean" if os.path.isdir(os.path.join(root, "lean")) else "Oq3/Model/Sema.lean"),
            encoding="utf-8").read()
out_path = os.path.join(root, "lean/Oq3/Props/C12SemaGen.lean" if os.path.isdir(os.path.join(root, "lean")) else "Oq3/Props/C12SemaGen.lean")


def split_arrows(ty):
    parts, depth, cur = [], 0, ""
    for ch in ty:
        if ch in "([{":
            depth += 1
        elif ch in ")]}":
            depth -= 1
        if ch == "→" and depth == 0:
            parts.append(cur.strip()); cur = ""
        else:
            cur += ch
    parts.append(cur.strip())
    return parts


def mutual_defs(src):
    i = src.index("\nmutual\n"); j = src.index("\nend\n", i)
    out = []
    for m in re.finditer(r"^def\s+(\w+)\s*:\s*((?:.|\n)*?)\n\s*\|", src[i:j], flags=re.M):
        parts = split_arrows(" ".join(m.group(2).split()))
        assert parts[0] == "Nat" and parts[-1].startswith("M "), (m.group(1), parts)
        out.append((m.group(1), parts[1:-1]))
    return out


mut = mutual_defs(sema)

# the ranges of the arguments of each function of the block (a0, a1, ... are its non-fuel arguments)
ARGSPANS = {
    "stmtToAsgStmt": "a0.spans",
    "caseExprsLoop": "Ast.casesSpans a0",
    "exprStmtToAsgStmt": "Ast.optExprSpans a0",
    "modifiersLoop": "Ast.modifiersSpans a0",
    "parenExprToAsgTexpr": "a0.spans",
    "exprToAsgTexpr": "Ast.optExprSpans a0",
    "setExpressionToAsgType": "a0.spans",
    "rangeExpressionToAsgType": "a0.spans",
    "gateCallExprToAsgStmt": "a0.spans",
    "callExprToAsgTexpr": "a0 :: (Ast.optArgListSpans a1 ++ Ast.optIdentifierSpans a2)",
    "gateOperandToAsgTexpr": "a0.spans",
    "indexOperatorToAsgType": "a0.spans",
    "expressionListToAsgType": "a0.spans",
    "qubitListToAsgTexpr": "Ast.optQubitListSpans a0",
    "gateOperandsLoop": "Ast.gateOperandsSpans a0",
    "expressionListToAsgTexpr": "a0.spans",
    "exprsLoop": "Ast.exprsSpans a0",
    "blockExprToAsgStmtList": "a0.spans",
    "stmtsLoop": "Ast.stmtsSpans a0",
    "blockExprToAsgType": "a0.spans",
    "blockOrStmtToAsgType": "a0.spans",
    "classicalDeclarationStatementToAsgStmt":
        "a0 :: (Ast.optScalarTypeSpans a2 ++ (Ast.optNameSpans a4 ++ Ast.optExprSpans a5))",
    "assignmentStmtToAsgStmt":
        "a0 :: (Ast.optIdentifierSpans a1 ++ (Ast.optExprSpans a2 ++ Ast.optIndexedIdentifierSpans a3))",
    "indexedIdentifierToAsgType": "a0.spans",
    "indexOperatorsLoop": "Ast.indexOperatorsSpans a0",
}
assert set(ARGSPANS) == {n for n, _ in mut}, set(ARGSPANS) ^ {n for n, _ in mut}

# non-recursive functions: (name, binders, ranges of the arguments or None)
LEAF = [
    ("notImpl", "(node : Ast.Span)", "[node]"),
    ("binaryOpToAsgType", "(op : Ast.BinaryOp)", None),
    ("intNumberValue", "(site : String) (text : String)", None),
    ("negativeFloatNumberToAsgType", "(fmt : Option String)", None),
    ("negativeIntToAsgType", "(text : String)", None),
    ("literalToAsgTexpr", "(literal : Ast.Literal)", None),
    ("designatorToAsg", "(designator : Option Ast.Designator)", "Ast.optDesignatorSpans designator"),
    ("scalarTypeToType", "(scalarType : Ast.ScalarType) (isconst : Bool)", "scalarType.spans"),
    ("paramTypeToType", "(paramType : Ast.ParamType) (isconst : Bool)", "paramType.spans"),
    ("declareClassicalHelper", "(symbolId : SymbolIdResult) (initializer : Option TExpr)", None),
    ("ioDeclarationStatementToAsgStmt",
     "(arrayType : Bool) (scalarType : Option Ast.ScalarType) (name : Option Ast.Name) (inputToken : Bool)",
     "Ast.optScalarTypeSpans scalarType ++ Ast.optNameSpans name"),
    ("bindParams", "(typ : T) (ps : List Ast.Param)", "ps.map (·.span)"),
    ("bindParameterList", "(inparamList : Option Ast.ParamList) (typ : T)", "Ast.optParamListSpans inparamList"),
    ("bindTypedParams", "(ps : List Ast.TypedParam)", "Ast.typedParamsSpans ps"),
    ("bindTypedParameterList", "(inparamList : Option Ast.TypedParamList)",
     "Ast.optTypedParamListSpans inparamList"),
    ("notGlobalCheck", "(node : Ast.Span)", "[node]"),
    ("gateNotGlobalCheck", "(name : Option Ast.Name)", "Ast.optNameSpans name"),
    ("returnGlobalCheck", "(node : Ast.Span)", "[node]"),
    ("delayDurationCheck", "(duration : TExpr) (designator : Ast.Span)", "[designator]"),
    ("quantumBinopCheck", "(left right : TExpr) (lhs rhs : Option Ast.Expr)",
     "Ast.optExprSpans lhs ++ Ast.optExprSpans rhs"),
    ("gateOperandIdentCheck", "(typ : T) (node : Ast.Span)", "[node]"),
    ("gateOperandIndexedCheck", "(typ : T) (node : Ast.Span)", "[node]"),
    ("gateCallCheck", "(span : Ast.Span) (qubitList : Option Ast.QubitList) (argList : Option Ast.ArgList) "
                      "(gateId : Ast.Identifier) (symbolResult : SymbolIdResult) (gateType : T) "
                      "(numParams numQubits : Nat)",
     "span :: (Ast.optQubitListSpans qubitList ++ (Ast.optArgListSpans argList ++ [gateId.span]))"),
    ("defArityCheck", "(expectedNumParams numParams : Nat) (argList : Option Ast.ArgList)",
     "Ast.optArgListSpans argList"),
    ("mutateConstCheck", "(symbolOk : Bool) (symbolType : T) (node : Ast.Span)", "[node]"),
]
LIST_REC = {"bindParams": "ps", "bindTypedParams": "ps"}


def binder_names(b):
    names = []
    for m in re.finditer(r"\(([^:()]+):", b):
        names += m.group(1).split()
    return names


SPAN_DEFS = """Ast.Expr.spans, Ast.ParenExpr.spans, Ast.RangeExpr.spans, Ast.Designator.spans,
    Ast.ScalarType.spans, Ast.ExpressionList.spans, Ast.SetExpression.spans, Ast.IndexKind.spans,
    Ast.IndexOperator.spans, Ast.IndexedIdentifier.spans, Ast.GateOperand.spans, Ast.QubitList.spans,
    Ast.ArgList.spans, Ast.GateCallExpr.spans, Ast.GPhaseCallExpr.spans, Ast.Modifier.spans,
    Ast.optExprSpans, Ast.exprsSpans, Ast.optParenExprSpans, Ast.optDesignatorSpans, Ast.optScalarTypeSpans,
    Ast.optExpressionListSpans, Ast.optIndexKindSpans, Ast.optIndexOperatorSpans, Ast.indexOperatorsSpans,
    Ast.optGateOperandSpans, Ast.gateOperandsSpans, Ast.optQubitListSpans, Ast.optArgListSpans,
    Ast.optGateCallExprSpans, Ast.optGPhaseCallExprSpans, Ast.modifiersSpans, Ast.ParamType.spans,
    Ast.optParamTypeSpans, Ast.TypedParam.spans, Ast.typedParamsSpans, Ast.optTypedParamListSpans,
    Ast.optReturnSignatureSpans, Ast.optQubitTypeSpans, Ast.optForIterableSpans, Ast.optHardwareQubitSpans,
    Ast.optFilePathSpans, Ast.optIndexedIdentifierSpans, Ast.Stmt.spans, Ast.BlockExpr.spans,
    Ast.BlockOrStmt.spans, Ast.CaseExpr.spans, Ast.stmtsSpans, Ast.casesSpans, Ast.optBlockSpans,
    Ast.optBosSpans, Ast.accBosSpans, Ast.optNameSpans, Ast.optIdentifierSpans, Ast.optLiteralSpans,
    Ast.ParamList.spans, Ast.optParamListSpans"""
SPAN_FNS = """Ast.ParenExpr.span_mk, Ast.RangeExpr.span_mk, Ast.Designator.span_mk, Ast.ExpressionList.span_mk, Ast.SetExpression.span_mk, Ast.IndexOperator.span_mk, Ast.IndexedIdentifier.span_mk, Ast.QubitList.span_mk, Ast.ArgList.span_mk, Ast.GateCallExpr.span_mk, Ast.GPhaseCallExpr.span_mk, Ast.BlockExpr.span_mk, Ast.CaseExpr.span_mk,
    Ast.GateOperand.span_hardwareQubit, Ast.GateOperand.span_identifier,
    Ast.GateOperand.span_indexedIdentifier"""

MANUAL = {
"designatorToAsg": """theorem designatorToAsg_errIn {L : List Ast.Span} (designator : Option Ast.Designator)
    (hL : Ast.optDesignatorSpans designator ⊆ L) : ErrIn L (designatorToAsg designator) := by
  cases designator with
  | none => unfold designatorToAsg; simp only [getAstDesignatorExpression]; errin
  | some d =>
    cases d with
    | mk s e => unfold designatorToAsg; simp only [getAstDesignatorExpression]; errin""",
"bindParams": """theorem bindParams_errIn {L : List Ast.Span} (typ : T) (ps : List Ast.Param)
    (hL : ps.map (·.span) ⊆ L) : ErrIn L (bindParams typ ps) := by
  induction ps with
  | nil => unfold bindParams; exact ErrIn.pure _
  | cons p ps ih =>
    have hp : p.span ∈ L := hL (by simp)
    have hps : ps.map (·.span) ⊆ L := fun x hx => hL (by simp only [List.map_cons]; exact List.mem_cons_of_mem _ hx)
    unfold bindParams
    exact ErrIn.bind (newBinding_errIn _ _ _ hp) (fun _ => ErrIn.bind (ih hps) (fun _ => ErrIn.pure _))""",
"bindTypedParams": """theorem bindTypedParams_errIn {L : List Ast.Span} (ps : List Ast.TypedParam)
    (hL : Ast.typedParamsSpans ps ⊆ L) : ErrIn L (bindTypedParams ps) := by
  induction ps with
  | nil => unfold bindTypedParams; exact ErrIn.pure _
  | cons p ps ih =>
    have hps : Ast.typedParamsSpans ps ⊆ L := fun x hx => hL (by simp [Ast.typedParamsSpans, hx])
    have hp : p.spans ⊆ L :=
      fun x hx => hL (by simp only [Ast.typedParamsSpans, List.mem_append]; exact Or.inl hx)
    have ihh := ih hps
    clear hL hps ih
    unfold bindTypedParams
    repeat' (first | exact ihh | errin_step)""",
}

o = []
o.append("/- GENERATED by /verif/tools/gen_c12_sema.py from Oq3/Model/Sema.lean — the proofs are checked by Lean. -/")
o.append("import Oq3.Props.C12SemaSpans\n")
o.append("namespace Oq3.Sema\nopen Oq3.Types Oq3.Symbols\n")
o.append(f"""-- closes `X ⊆ L` and `node ∈ L` from the hypothesis `… ⊆ L` of the context
set_option hygiene false in
macro "span_side" : tactic => `(tactic| (
  name_subset_hyp
  try simp only [{SPAN_DEFS},
    List.cons_subset, List.append_subset, List.nil_subset, List.map_cons, List.map_nil,
    and_true, true_and, *] at hsub
  try simp only [{SPAN_DEFS},
    {SPAN_FNS},
    List.cons_subset, List.append_subset, List.nil_subset, List.map_cons, List.map_nil,
    and_true, true_and]
  first
  | done
  | exact hsub
  | simp [hsub, Ast.Expr.span_mem_of, Ast.ParenExpr.span_mem_of, Ast.RangeExpr.span_mem_of,
      Ast.Designator.span_mem_of, Ast.IndexedIdentifier.span_mem_of, Ast.QubitList.span_mem_of,
      Ast.ArgList.span_mem_of, Ast.GateCallExpr.span_mem_of, Ast.GateOperand.span_mem_of]))

syntax "errin_lemma" : tactic
macro_rules | `(tactic| errin_lemma) => `(tactic| fail "no lemma")
syntax "errin_ih" : tactic
macro_rules | `(tactic| errin_ih) => `(tactic| fail "no ih")

/-- one structural step of an `ErrIn L` proof -/
macro "errin_step" : tactic => `(tactic| first
  | with_reducible exact ErrIn.pure _
  | with_reducible exact ErrIn.fail _
  | with_reducible exact ErrIn.throw _
  | with_reducible exact unwrap_errIn _ _
  | with_reducible exact tableLookup_errIn _
  | with_reducible exact currentScopeType_errIn
  | with_reducible exact inGlobalScope_errIn
  | with_reducible exact insertConstValue_errIn _ _
  | with_reducible exact getConstValue_errIn _
  | with_reducible exact pushAnnotation_errIn _
  | with_reducible exact annotationsIsEmpty_errIn
  | with_reducible exact takeAnnotations_errIn
  | with_reducible exact insertStmt_errIn _
  | (with_reducible apply insertError_errIn; span_side)
  | (with_reducible apply newBinding_errIn; span_side)
  | (with_reducible apply lookupSymbol_errIn; span_side)
  | (with_reducible apply lookupGateSymbol_errIn; span_side)
  | (with_reducible apply lookupIdentifier_errIn; span_side)
  | (with_reducible apply standardLibraryGates_errIn; span_side)
  | (cases ‹_ + 1 = Nat.succ _›)
  | errin_lemma
  | errin_ih
  | with_reducible apply withScope_errIn
  | (with_reducible apply unwrap_bind_errIn; intro _ hunw; first | subst hunw | skip)
  | with_reducible apply pure_bind_errIn
  | with_reducible exact fail_bind_errIn _ _
  | split
  | with_reducible apply ErrIn.bind
  | intro _
  | with_reducible apply ErrIn.ite
  | dsimp only)

macro "errin" : tactic => `(tactic| repeat' errin_step)
""")

for name, b, sp in LEAF:
    ns = binder_names(b)
    args = " ".join(ns)
    under = " ".join("_" for _ in ns)
    hyp = f" (hL : {sp} ⊆ L)" if sp else ""
    stmt = f"theorem {name}_errIn {{L : List Ast.Span}} {b}{hyp} : ErrIn L ({name} {args})"
    if name in MANUAL:
        o.append(MANUAL[name])
    elif name in LIST_REC:
        v = LIST_REC[name]
        o.append(f"{stmt} := by\n  induction {v} with\n  | nil => unfold {name}; errin\n"
                 f"  | cons p ps ih =>\n    have hps : {sp.replace('ps', 'ps')} ⊆ L := by\n"
                 f"      intro x hx; apply hL; simp [Ast.typedParamsSpans, hx]\n"
                 f"    unfold {name}; repeat' (first | exact ih hps | errin_step)")
    else:
        o.append(f"{stmt} := by\n  unfold {name}; errin")
    if sp:
        o.append(f"macro_rules | `(tactic| errin_lemma) => `(tactic| (with_reducible apply {name}_errIn; span_side))\n")
    else:
        o.append(f"macro_rules | `(tactic| errin_lemma) => `(tactic| with_reducible exact {name}_errIn {under})\n".replace(" )", ")"))

# ---------------------------------------------------------------- mutual block
o.append("/-- all functions of the mutual block at one fuel level -/")
o.append("structure AllErrIn (fuel : Nat) : Prop where")
for name, args in mut:
    bs = " ".join(f"(a{i} : {t})" for i, t in enumerate(args))
    ns = " ".join(f"a{i}" for i in range(len(args)))
    o.append(f"  {name} : ∀ {bs} (L : List Ast.Span), {ARGSPANS[name]} ⊆ L → ErrIn L (Oq3.Sema.{name} fuel {ns})")
o.append("")
alts = [f"(with_reducible apply h_{name}; span_side)" for name, _ in mut]
o.append("set_option hygiene false in")
o.append("macro_rules | `(tactic| errin_ih) => `(tactic| first\n  | " + "\n  | ".join(alts) + ")\n")
pat = "⟨" + ", ".join(f"h_{n}" for n, _ in mut) + "⟩"
for name, args in mut:
    bs = " ".join(f"(a{i} : {t})" for i, t in enumerate(args))
    ns = " ".join(f"a{i}" for i in range(len(args)))
    o.append("set_option maxHeartbeats 3200000 in")
    o.append(f"theorem {name}_stepS (fuel : Nat) (ih : AllErrIn fuel) {bs} (L : List Ast.Span)")
    o.append(f"    (hL : {ARGSPANS[name]} ⊆ L) : ErrIn L (Oq3.Sema.{name} (fuel + 1) {ns}) := by")
    o.append(f"  obtain {pat} := ih")
    if name.endswith("Loop"):
        last = f"a{len(args) - 1}"
        o.append(f"  cases {last} <;> (unfold Oq3.Sema.{name}; errin)\n")
    else:
        o.append(f"  unfold Oq3.Sema.{name}; errin\n")
o.append("theorem allErrIn (fuel : Nat) : AllErrIn fuel := by")
o.append("  induction fuel with")
o.append("  | zero =>")
o.append("    constructor")
for name, args in mut:
    o.append(f"    · intros; unfold Oq3.Sema.{name}; exact ErrIn.throw _")
o.append("  | succ fuel ih =>")
o.append("    constructor")
for name, args in mut:
    under = " ".join("_" for _ in args)
    o.append(f"    · intro {' '.join('a%d' % i for i in range(len(args)))} L hL; exact {name}_stepS fuel ih {under} L hL")
o.append("")
o.append("end Oq3.Sema")
open(out_path, "w", encoding="utf-8").write("\n".join(o) + "\n")
print("wrote", out_path, len(LEAF), "leaf", len(mut), "mutual")
