/-
Validation of the event encoding of Oq3/Lemmas/LangEv2.lean (extended expressions `X`) against the
grammar model, by evaluation of `Oq3.Grammar.exprBp` on small trees.
  cd /verif/lean && lake env lean ../tools/langev2_validate.lean
-/
import Oq3.Lemmas.LangEv2
open Oq3.Gen Oq3.Parser Oq3.Grammar Oq3.PrattEv Oq3.LangEv Oq3.LangEv2

def xs0 : List X := [.prim .id, .prim (.lit .int), .bin .plus (.prim .id) (.prim (.lit .float)), .pre .minus (.prim .id)]
def xl : List X → XList
  | [] => .nil
  | a :: as => .cons a (xl as)
def items0 : List ItemList :=
  [.one (.ex (.prim .id)), .one (.r2 (.prim (.lit .int)) (.prim .id)), .one (.r3 (.prim .id) (.prim (.lit .int)) (.prim .id)),
   .cons (.ex (.bin .star (.prim .id) (.prim .id))) (.one (.r2 (.prim .id) (.prim .id)))]
def bases : List Prim :=
  [.id, .lit .int, .lit .float, .lit .bits, .lit .tru, .lit .fals, .timing .int, .timing .float, .hw, .measureE, .measureHw,
   .measureIdx (.one (.one (.ex (.prim (.lit .int))))), .measureIdx (.cons (.one (.r2 (.prim .id) (.prim .id))) (.one (.one (.ex (.prim .id))))),
   .paren (.bin .plus (.prim .id) (.prim (.lit .int))), .cast0 .int (.prim .id), .castW .float (.prim (.lit .int)) (.pre .minus (.prim .id)),
   .idIdx (.one (.one (.ex (.prim (.lit .int))))), .idIdx (.cons (.one (.r2 (.prim .id) (.prim .id))) (.one (.one (.ex (.prim .id)))))]
def indexable (p : Prim) : Bool :=
  match (X.prim p).kind with
  | .IDENTIFIER | .LITERAL | .TIMING_LITERAL | .HARDWARE_QUBIT | .MEASURE_EXPRESSION | .INDEXED_IDENTIFIER => false
  | _ => true
def posts1 (ps : List Prim) : List Prim :=
  ps.flatMap fun p =>
    [Prim.call p .nil, .call p (xl [.prim .id]), .call p (xl [.prim (.lit .int), .bin .plus (.prim .id) (.prim .id)])] ++
    (if indexable p then items0.map (Prim.index p) else [])
def prims1 : List Prim := bases ++ posts1 bases
def prims2 : List Prim := posts1 (posts1 [.id, .paren (.prim .id), .idIdx (.one (.one (.ex (.prim .id))))])

def check (bp : Nat) (x : X) (follow : List Tok) : Bool :=
  let tk := toksX x ++ follow
  let pre : Array Ev := #[.finish, .finish]
  let s : P := { kinds := (tk.map (·.1)).toArray, joint := (tk.map (·.2)).toArray, events := pre, live := 3, steps := 5, sinceBump := 7, protectedPos := [1] }
  match exprBp (12 * sizeX x + 20) none { preferStmt := false } bp s with
  | .ok (some (cm, .notBlock), s') =>
    s'.events.toList == pre.toList ++ evsX x && s'.pos == (toksX x).length && cm == ⟨2 + (rootX x + 1), x.kind⟩
      && s'.live == 3 && s'.steps == 0 && s'.sinceBump == sbX x && s'.protectedPos == [1]
      && (evsX x).length == lenX x + 1
      && process (evsX x) == some (nodesX x)
  | _ => false

def count (xs : List X) (follow : List Tok) : Nat × Nat := (xs.length, (xs.filter fun x => !check 1 x follow).length)
def showBad (xs : List X) (follow : List Tok) : List (List String) :=
  ((xs.filter fun x => !check 1 x follow).take 3).map fun x => (toksX x).map (·.1.name)

#eval count (prims1.map .prim) [tk .SEMICOLON]
#eval showBad (prims1.map .prim) [tk .SEMICOLON]
#eval count (prims2.map .prim) [tk .R_PAREN]
#eval showBad (prims2.map .prim) [tk .R_PAREN]
#eval count ((prims1.take 60).flatMap fun p => [X.bin .plus (.prim p) (.prim .id), .bin .star (.prim .id) (.prim p), .pre .minus (.prim p),
    .bin .minus (.bin .plus (.prim p) (.prim p)) (.prim p)]) [tk .COMMA]
