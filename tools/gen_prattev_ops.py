#!/usr/bin/env python3
"""Generates the per-operator section of Oq3/Lemmas/PrattEvOps.lean (between the GENERATED markers)
from Oq3/Gen/Ops.lean.  Not trusted: the output is checked by Lean."""
import re, sys, os
root = sys.argv[1] if len(sys.argv) > 1 else os.path.join(os.path.dirname(__file__), '..', 'lean')
ops = open(os.path.join(root, 'Oq3/Gen/Ops.lean')).read()
rows_txt = ops[ops.index('def currentOpRows'):ops.index('def compositeTable')]
rows = re.findall(r'^\s*(\(\.(\w+), (?:some \.\w+|none), (?:some \([^)]*\)|none)\)),?$', rows_txt, re.M)
comp_txt = ops[ops.index('def compositeTable'):ops.index('def eatRawTokens')]
comps = re.findall(r'\(\.(\w+), \[([^\]]*)\]\)', comp_txt)
binops = [('pipe2', ['PIPE', 'PIPE']), ('amp2', ['AMP', 'AMP']), ('pipe', ['PIPE']), ('caret', ['CARET']),
          ('amp', ['AMP']), ('eq2', ['EQ', 'EQ']), ('neq', ['BANG', 'EQ']), ('lt', ['L_ANGLE']),
          ('lteq', ['L_ANGLE', 'EQ']), ('gt', ['R_ANGLE']), ('gteq', ['R_ANGLE', 'EQ']),
          ('shl', ['L_ANGLE', 'L_ANGLE']), ('shr', ['R_ANGLE', 'R_ANGLE']), ('plus', ['PLUS']),
          ('minus', ['MINUS']), ('star', ['STAR']), ('slash', ['SLASH']), ('percent', ['PERCENT']),
          ('dstar', ['STAR', 'STAR'])]
out = []
out.append('/-- closed forms of `atF` for the composite kinds -/')
names = []
for k, ps in comps:
    ps = [p.strip().lstrip('.') for p in ps.split(',')]
    n = len(ps)
    names.append(f'atF_{k}')
    if n == 2:
        rhs = f'(K.getD p .EOF == .{ps[0]} && K.getD (p + 1) .EOF == .{ps[1]} && J.getD p false)'
    else:
        rhs = (f'(K.getD p .EOF == .{ps[0]} && K.getD (p + 1) .EOF == .{ps[1]} && K.getD (p + 2) .EOF == .{ps[2]}\n'
               f'      && J.getD p false && J.getD (p + 1) false)')
    out.append(f'theorem atF_{k} (K : Array SyntaxKind) (J : Array Bool) (p : Nat) :\n    atF .{k} K J p = {rhs} :=')
    out.append(f'  atF_comp{n} .{k} {" ".join("." + p for p in ps)} (by decide) K J p')
out.append('')
firsts = []
for row, first in rows:
    if first not in firsts:
        firsts.append(first)
for f in firsts:
    rs = [row for row, first in rows if first == f]
    out.append(f'theorem rows_{f} : Ops.currentOpRows.filter (·.1 == SyntaxKind.{f}) =\n    [' + ',\n     '.join(rs) + '] := by decide')
out.append('')
for name, ps in binops:
    n = len(ps)
    out.append(f'theorem opF_{name} (s : P) (q : Nat) (h : Toks s q BinOp.{name}.toks)\n'
               f'    (hn : operandFirst (s.kindAt (q + {n})) = true) :\n'
               f'    opF s.kinds s.joint q = (BinOp.{name}.pow, BinOp.{name}.kind, .left) := by\n'
               f'  op_case rows_{ps[0]}')
path = os.path.join(root, 'Oq3/Lemmas/PrattEvOps.lean')
src = open(path).read()
b, e = '-- BEGIN GENERATED (tools/gen_prattev_ops.py)\n', '-- END GENERATED\n'
i, j = src.index(b) + len(b), src.index(e)
open(path, 'w').write(src[:i] + '\n'.join(out) + '\n' + src[j:])
